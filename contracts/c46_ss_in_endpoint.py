"""C46 — SuperSpeed IN endpoints deliver data and signal readiness correctly (SuperSpeedStreamInEndpoint, domain `ss`).

Method: a spec-side protocol machine (ghost state, driven by the endpoint's *inputs only*) computes what an IN endpoint has
to do in every cycle; each ensure says "the real output equals the spec output"; the invariant is the refinement map
between the FSM/registers and the ghost machine.

Ghost machine (M = max packet size, N = endpoint number)
  tail  : fill (bytes accepted into the packet being filled), tended (it received `last`), tcomp (it is complete:
          `last` seen or M bytes) ;  a word is accepted iff valid.any ∧ ¬tcomp
  head  : EMPTY | DATA(hlen, hended) | ZLP     the oldest complete, not yet acknowledged packet.  A complete tail is
          promoted to head as soon as head is EMPTY; an acknowledged DATA head of exactly M bytes that ended a transfer
          leaves a ZLP head behind ("short-packet/ZLP transfer ends")
  phase : IDLE | SENDING(widx = words put on the tx stream, onbus = a word is waiting for tx.ready) | AWAIT (completely
          transmitted, waiting for the host's verdict)
  seq   : number of acknowledged packets mod 32 since ep_reset;   nrdy_out : an NRDY was sent and neither an ERDY was
          completed nor an IN request answered since.  An ERDY request is *completed* by a `done` of the handshake generator
          that follows a cycle in which the generator showed `ready` while the ERDY was being requested (ghost acc): a `done`
          before that belongs to an earlier packet (e.g. the NRDY just requested) - see the wiring section below.
  events: in_tok = ACK header to endpoint N with number_of_packets != 0;  verdict = phase AWAIT ∧ ACK to N;
          adv = verdict ∧ ¬retry ∧ next_sequence == seq+1;  rty = verdict ∧ ¬adv;
          request = (IDLE ∧ in_tok) ∨ (adv ∧ number_of_packets != 0)

Statement clause -> ensures
  "answers an IN request with a data packet when it holds data (NRDY otherwise)"
        nrdy_iff_request_without_data, zlp_iff_due, data_word_follows_request (a word is on the tx stream within one cycle
        whenever a data packet is due), tx_framing (first/last/byte mask/length), tx_holds_until_ready, ready_iff_room
  "notifies the host with ERDY once data becomes available after an NRDY"          erdy_iff_data_after_nrdy
  "numbers packets with consecutive sequence numbers that advance only on the host's ACK"
        header_fields (sequence == seq for every data word and ZLP, seq+1 for the ZLP issued in the acknowledging cycle),
        handshake_endpoint_number
  "resends the same packet when the host asks for a retry"    by the ghost machine: rty keeps head/hlen/seq and re-enters
        SENDING (or repeats the ZLP); header_fields/tx_framing then pin sequence number, length and framing of the resend
  "delivers the stream exactly once in order with short-packet/ZLP transfer ends"
        packetisation and order of packets: by the ghost machine (hlen = bytes accepted, promoted in order, ZLP rule);
        payload: payload_is_the_accepted_word - a witness-symbol argument (rigid index k, captured payload v, invariants
        saying in which of the two packet buffers / read register the k-th accepted word sits): the word with running
        index i on the tx stream (index = words of all acknowledged packets + position in the present packet, so
        retransmissions are included) carries the payload of the i-th accepted input word.  Unbounded.

Caller side (wiring section at the end of the file): the endpoint contract cuts at SuperSpeedEndpointInterface.  Call obligations
on the real parents, with every interface signal a free input: SuperSpeedEndpointMultiplexer (tx stream + header parameters + ready;
handshake requests / ready / done incl. simultaneous requesters; broadcast of handshakes_in, receive path, device state),
USB3ProtocolLayer (endpoint interface <-> link layer data path, TransactionPacketReceiver, header demultiplexer), USB3LinkLayer
(data_sink + parameters -> DataPacketTransmitter -> header arbiter / RawPacketTransmitter -> transmit arbiter -> physical layer) and
USBSuperSpeedDevice with two real IN endpoints (end to end from each endpoint's interface to the DataPacketTransmitter /
TransactionPacketGenerator / TransactionPacketReceiver instances; the `done` that completes an accepted ERDY request is that
endpoint's ERDY packet being taken - inductive invariant over the generator's header queue).

Scope / assumptions: stream `valid` is 0b0000/0001/0011/0111/1111 and partial words only come with `last`; IN requests
that arrive while a data packet is still being transmitted (phase SENDING) are outside the statement (a host cannot
issue them without bursting) and are ignored by the spec machine.
"""
import z3
from hwv.contract import B, zx, bvc
from luna.gateware.usb.usb3.endpoints.stream import SuperSpeedStreamInEndpoint

LEVEL = "proof"
EXPLANATION = ("Refinement of a spec-side protocol machine (ghost state driven by the inputs only): every control output "
               "(NRDY/ERDY/ZLP/ready), the tx framing, header fields (sequence number, length, endpoint) and - by a "
               "witness-symbol argument over both packet buffers - the payload order are proved for all histories by "
               "1-induction.  Safety only (no claim that the host ever asks).")
ASSUMPTIONS = ["input stream: valid in {0,1,3,7,15}, partial words only together with last",
               "IN requests arriving while a data packet is still being transmitted are not answered (no bursting)",
               "fewer than 2^16 words between a word's acceptance and its acknowledgement (16-bit modular word counters)"]
BOUNDED = []

EMPTY, DATA, ZLP = 0, 1, 2
IDLE, SENDING, AWAIT = 0, 1, 2


def make(M, N):
    def contract(c):
        d = SuperSpeedStreamInEndpoint(endpoint_number=N, max_packet_size=M)
        i = d.interface
        ts = c.unit(d, {
            "i_valid": d.stream.valid, "i_payload": d.stream.payload, "i_last": d.stream.last, "o_ready": d.stream.ready,
            "i_tx_ready": i.tx.ready, "o_tx_valid": i.tx.valid, "o_tx_payload": i.tx.payload, "o_tx_first": i.tx.first,
            "o_tx_last": i.tx.last, "o_tx_zlp": i.tx_zlp, "o_tx_length": i.tx_length, "o_tx_seq": i.tx_sequence_number,
            "o_tx_ep": i.tx_endpoint_number, "o_tx_dir": i.tx_direction,
            "i_ack": i.handshakes_in.ack_received, "i_ep": i.handshakes_in.endpoint_number,
            "i_nump": i.handshakes_in.number_of_packets, "i_nseq": i.handshakes_in.next_sequence,
            "i_retry": i.handshakes_in.retry_required,
            "o_nrdy": i.handshakes_out.send_nrdy, "o_erdy": i.handshakes_out.send_erdy,
            "o_hs_ep": i.handshakes_out.endpoint_number, "i_done": i.handshakes_out.done, "i_ready": i.handshakes_out.ready,
            "i_ep_reset": i.ep_reset})
        I, O = ts.inputs, dict(ts.outputs)
        for n in [n for n in I if n.startswith("o_")]:
            # an interface output the unit does not drive at all: in hardware it keeps its reset value (0)
            c.require(f"undriven_{n}", I[n] == 0, why=f"{n} is not driven by the unit; an undriven signal holds its reset value 0")
            O[n] = I[n]
        LW = max(M.bit_length() + 2, 6)
        L = lambda v: bvc(v, LW)

        c.require("valid_is_contiguous",
                  z3.And(z3.Or(*[I["i_valid"] == v for v in (0, 1, 3, 7, 15)]),
                         z3.Implies(z3.And(I["i_valid"] != 0, I["i_valid"] != 15), B(I["i_last"]))),
                  why="SuperSpeedStreamInterface: byte lanes are valid from lane 0 up; only the final word of a transfer is partial")

        # ---------------------------------------------------------------- ghost protocol machine
        g = lambda n, w: c.ghost(n, w)
        head, hlen, hended = g("head", 2), g("hlen", LW), g("hended", 1)
        fill, tended, tcomp = g("fill", LW), g("tended", 1), g("tcomp", 1)
        phase, widx, onbus = g("phase", 2), g("widx", LW), g("onbus", 1)
        seq, nrdy_out = g("seq", 5), g("nrdy_out", 1)
        # handshake generator interface (documented in HandshakeGeneratorInterface; proved for the generator in C45): a request is
        # taken up in a cycle in which the generator shows `ready`; `done` reports the completion of the packet it is working on.
        # acc : the ERDY being requested has been taken up (ready was seen while it was requested) and is not yet completed
        acc = g("erdy_accepted", 1)

        ack_us = z3.And(B(I["i_ack"]), I["i_ep"] == N)
        wants_more = I["i_nump"] != 0
        in_tok = z3.And(ack_us, wants_more)
        any_valid = I["i_valid"] != 0
        nbytes = z3.If(I["i_valid"] == 15, L(4), z3.If(I["i_valid"] == 7, L(3), z3.If(I["i_valid"] == 3, L(2),
                                                                                 z3.If(I["i_valid"] == 1, L(1), L(0)))))
        accept = z3.And(any_valid, z3.Not(B(tcomp)))
        fill_a = z3.If(accept, fill + nbytes, fill)
        tended_a = z3.Or(B(tended), z3.And(accept, B(I["i_last"])))
        tcomp_a = z3.Or(B(tcomp), z3.And(accept, z3.Or(B(I["i_last"]), z3.UGE(fill + 4, L(M)))))

        verdict = z3.And(phase == AWAIT, ack_us)
        adv = z3.And(verdict, z3.Not(B(I["i_retry"])), I["i_nseq"] == seq + 1)
        rty = z3.And(verdict, z3.Not(adv))
        head_k = z3.If(adv, z3.If(z3.And(head == DATA, hlen == M, B(hended)), bvc(ZLP, 2), bvc(EMPTY, 2)), head)
        # A complete tail becomes the head as soon as the head is empty.  In the very cycle of an acknowledgement the tail
        # only counts if it was complete before, or is being completed by the final word of a full multi-word packet
        # (a one-word packet arriving in that cycle cannot be read back from the buffer in time; it is promoted one cycle later).
        full_now = z3.And(accept, z3.UGE(fill + 4, L(M))) if M > 4 else z3.BoolVal(False)
        promote = z3.And(head_k == EMPTY, z3.If(adv, z3.Or(B(tcomp), full_now), tcomp_a))
        head_n = z3.If(promote, bvc(DATA, 2), head_k)
        hlen_n = z3.If(promote, fill_a, z3.If(head_k == DATA, hlen, L(0)))
        hended_n = z3.If(promote, tended_a, z3.And(head_k == DATA, B(hended)))

        req_idle = z3.And(phase == IDLE, in_tok)
        req_ack = z3.And(adv, wants_more)
        s_nrdy = z3.Or(z3.And(req_idle, head == EMPTY), z3.And(req_ack, head_n == EMPTY))
        s_zlp = z3.Or(z3.And(req_idle, head == ZLP), z3.And(req_ack, head_n == ZLP), z3.And(rty, head == ZLP))
        s_start = z3.Or(z3.And(req_idle, head == DATA), z3.And(req_ack, head_n == DATA), z3.And(rty, head == DATA))
        s_erdy = z3.And(phase == IDLE, head != EMPTY, B(nrdy_out))
        erdy_done = z3.And(s_erdy, B(I["i_done"]), B(acc))         # the generator completes the packet it took up for this request

        # transmit progress
        is_last_word = z3.UGE(widx << 2, hlen)                    # the word on the bus (index widx-1) is the final one
        move = z3.And(phase == SENDING, z3.Or(z3.Not(B(onbus)), B(I["i_tx_ready"])))
        finished = z3.And(move, B(onbus), is_last_word)           # final word taken by the transmitter
        loads = z3.And(move, z3.Not(finished))

        c.set_next(head, head_n); c.set_next(hlen, hlen_n); c.set_next(hended, hended_n)
        c.set_next(fill, z3.If(promote, L(0), fill_a))
        c.set_next(tended, z3.And(z3.Not(promote), tended_a))
        c.set_next(tcomp, z3.And(z3.Not(promote), tcomp_a))
        c.set_next(phase, z3.If(s_start, bvc(SENDING, 2), z3.If(s_zlp, bvc(AWAIT, 2), z3.If(finished, bvc(AWAIT, 2),
                          z3.If(adv, bvc(IDLE, 2), phase)))))
        c.set_next(widx, z3.If(z3.Or(s_start, finished), L(0), z3.If(loads, widx + 1, z3.If(phase == SENDING, widx, L(0)))))
        c.set_next(onbus, z3.And(z3.Not(s_start), z3.If(move, loads, B(onbus))))
        c.set_next(seq, z3.If(B(I["i_ep_reset"]), bvc(0, 5), z3.If(adv, seq + 1, seq)))
        c.set_next(nrdy_out, z3.Or(s_nrdy, z3.And(B(nrdy_out), z3.Not(erdy_done), z3.Not(z3.Or(s_start, s_zlp)))))
        c.set_next(acc, z3.And(s_erdy, z3.Not(erdy_done), z3.Not(z3.Or(s_start, s_zlp)), z3.Or(B(acc), B(I["i_ready"]))))

        # ---------------------------------------------------------------- refinement map
        fsm = ts.fsm("fsm_state")
        anon = [v for k, v in ts.state.items() if str(v).startswith("$signal") and z3.is_bv(v)]
        assert len(anon) == 2, [str(v) for v in anon]
        toggle = B(ts.sig("ping_pong_toggle"))
        ended0, ended1 = B(ts.sig("stream_ended_in_buffer0")), B(ts.sig("stream_ended_in_buffer1"))
        w_fill = z3.If(toggle, anon[1], anon[0]); r_fill = z3.If(toggle, anon[0], anon[1])
        w_ended = z3.If(toggle, ended1, ended0); r_ended = z3.If(toggle, ended0, ended1)
        on_last = z3.And(B(onbus), is_last_word)

        c.inv("ghost_ranges", z3.And(z3.ULE(head, 2), z3.ULE(phase, 2), z3.ULE(fill, M), z3.ULE(hlen, M),
                                     z3.Implies(head == EMPTY, phase == IDLE),
                                     (head == DATA) == (hlen != 0),
                                     z3.Implies(phase == SENDING, head == DATA),
                                     z3.Implies(phase == AWAIT, head != EMPTY),
                                     z3.Implies(phase != SENDING, z3.And(z3.Not(B(onbus)), widx == 0)),
                                     z3.Implies(phase == SENDING, z3.And(z3.ULE((widx << 2), hlen + 3),
                                                                         B(onbus) == (widx != 0))),
                                     z3.Implies(phase != IDLE, z3.Not(B(nrdy_out))),
                                     z3.Implies(B(acc), z3.And(phase == IDLE, head != EMPTY, B(nrdy_out)))))
        c.try_inv("erdy_accepted_register", lambda: B(ts.sig("erdy_accepted")) == B(acc))
        c.inv("tail", z3.And(zx(w_fill, LW) == fill, w_ended == B(tended),
                             B(tcomp) == z3.Or(B(tended), z3.UGT(fill + 4, L(M))),
                             z3.Implies(z3.Not(B(tended)), fill & 3 == 0),
                             z3.Implies(B(tended), fill != 0)))
        c.inv("head", z3.And(zx(r_fill, LW) == hlen, z3.Implies(head == DATA, r_ended == B(hended))))
        c.inv("state_wait_for_data", fsm.is_("WAIT_FOR_DATA") == (head == EMPTY))
        c.inv("state_request_in_token", fsm.is_("REQUEST_IN_TOKEN") == z3.And(head != EMPTY, phase == IDLE, B(nrdy_out)))
        c.inv("state_wait_to_send", fsm.is_("WAIT_TO_SEND") == z3.And(head != EMPTY, phase == IDLE, z3.Not(B(nrdy_out))))
        c.inv("state_send_packet", fsm.is_("SEND_PACKET") == z3.And(phase == SENDING, z3.Not(on_last)))
        c.inv("state_wait_for_ack", fsm.is_("WAIT_FOR_ACK") == z3.Or(phase == AWAIT, z3.And(phase == SENDING, on_last)))
        c.inv("registers", z3.And(B(ts.sig("erdy_required")) == B(nrdy_out),
                                  ts.sig("sequence_number") == seq,
                                  z3.Implies(phase == AWAIT, B(ts.sig("last_packet_was_zlp")) == (head == ZLP)),
                                  z3.Implies(phase == SENDING, z3.Not(B(ts.sig("last_packet_was_zlp")))),
                                  z3.Implies(z3.Or(z3.Not(fsm.is_("WAIT_FOR_ACK")), phase == AWAIT),
                                             zx(ts.sig("send_position"), LW) == widx)))

        def both(name, expr, clause):
            """A fact about registered outputs: part of the invariant and an ensure."""
            c.inv("out_" + name, expr)
            c.ensure(name, expr, clause=clause)

        rem = z3.Extract(1, 0, hlen)
        mask = z3.If(is_last_word, z3.If(rem == 0, bvc(15, 4), z3.If(rem == 1, bvc(1, 4), z3.If(rem == 2, bvc(3, 4), bvc(7, 4)))),
                     bvc(15, 4))
        both("tx_framing", z3.And((O["o_tx_valid"] != 0) == B(onbus),
                                  z3.Implies(B(onbus), z3.And(B(O["o_tx_first"]) == (widx == 1),
                                                              B(O["o_tx_last"]) == is_last_word,
                                                              O["o_tx_valid"] == mask))),
             clause="answers an IN request with a data packet: words are framed first..last with the byte mask of the packet length")

        # ---------------------------------------------------------------- ensures (outputs == spec outputs)
        c.ensure("ready_iff_room", B(O["o_ready"]) == z3.Not(B(tcomp)),
                 clause="for any input stream: data is accepted exactly while the packet being filled is incomplete")
        c.ensure("nrdy_iff_request_without_data", B(O["o_nrdy"]) == s_nrdy,
                 clause="answers an IN request ... NRDY otherwise (and only then)")
        c.ensure("zlp_iff_due", B(O["o_tx_zlp"]) == s_zlp,
                 clause="short-packet/ZLP transfer ends: a ZLP answers the IN request after a max-size packet that ended a transfer; repeated on retry")
        c.ensure("data_word_follows_request", z3.Implies(z3.And(phase == SENDING, z3.Not(B(onbus))), c.nx(O["o_tx_valid"]) != 0),
                 clause="answers an IN request with a data packet when it holds data")
        c.ensure("erdy_iff_data_after_nrdy", B(O["o_erdy"]) == s_erdy,
                 clause="notifies the host with ERDY once data becomes available after an NRDY")
        hdr_seq = z3.If(z3.And(req_ack, head_n == ZLP), seq + 1, seq)
        c.ensure("header_fields",
                 z3.Implies(z3.Or(B(onbus), s_zlp),
                            z3.And(O["o_tx_seq"] == hdr_seq, zx(O["o_tx_ep"], 8) == N, O["o_tx_dir"] == 1,
                                   z3.Implies(B(onbus), zx(O["o_tx_length"], 16) == zx(hlen, 16)))),
                 clause="numbers packets with consecutive sequence numbers that advance only on the host's ACK; resends the same packet (same number, same length) on retry")
        c.ensure("handshake_endpoint_number", z3.Implies(z3.Or(B(O["o_nrdy"]), B(O["o_erdy"])), zx(O["o_hs_ep"], 8) == N),
                 clause="NRDY/ERDY name this endpoint")
        c.ensure("tx_holds_until_ready",
                 z3.Implies(z3.And(B(onbus), z3.Not(B(I["i_tx_ready"]))),
                            z3.And(c.nx(O["o_tx_valid"]) == O["o_tx_valid"], c.nx(O["o_tx_payload"]) == O["o_tx_payload"],
                                   c.nx(O["o_tx_first"]) == O["o_tx_first"], c.nx(O["o_tx_last"]) == O["o_tx_last"])),
                 clause="delivers the stream exactly once: a word stays on the tx stream until the transmitter takes it")

        # ---------------------------------------------------------------- payload: exactly once, in order (witness word)
        # k = index (in the order of acceptance) of one arbitrary input word, v = its payload.  Packets are acknowledged in
        # order and `base` counts the words of all acknowledged packets, so the word on the tx stream has index base+widx-1:
        # if that is k, its payload must be v.  Holds for first transmissions and retries alike.
        K = 16
        k = c.rigid("k", K)
        n_in, base, v = c.ghost("n_in", K), c.ghost("base", K), c.ghost("v", 32)
        words = lambda nbytes_: zx((nbytes_ + 3) >> 2, K)
        hw, tw = words(hlen), words(fill)
        c.set_next(n_in, z3.If(accept, n_in + 1, n_in))
        c.set_next(v, z3.If(z3.And(accept, n_in == k), I["i_payload"], v))
        c.set_next(base, z3.If(z3.And(adv, head == DATA), base + hw, base))
        mems = {}
        for path in ("transmit_buffer_0", "transmit_buffer_1"):
            arr, cell = ts.mem(path)
            memidx = [idx for idx in ts.mems.values() if ts.state[('mem', idx)].eq(arr)][0]
            rps = [val for key, val in ts.state.items() if key[0] == 'rp' and ts.nl.cells[key[1]].memory == memidx]
            assert len(rps) == 1
            mems[path] = (arr, rps[0])
        (m0, rp0), (m1, rp1) = mems["transmit_buffer_0"], mems["transmit_buffer_1"]
        AWm = m0.sort().domain().size()
        sel = lambda arr, idx: z3.Select(arr, z3.Extract(AWm - 1, 0, idx))
        off_h = k - base                      # position of the witness inside the head packet, if 0 <= off_h < hw
        off_t = k - base - hw                 # ... inside the tail packet, if 0 <= off_t < tw
        in_head, in_tail = z3.ULT(off_h, hw), z3.ULT(off_t, tw)
        rd_mem = lambda idx: z3.If(toggle, sel(m0, idx), sel(m1, idx))
        wr_mem = lambda idx: z3.If(toggle, sel(m1, idx), sel(m0, idx))
        rd_rp = z3.If(toggle, rp0, rp1)
        c.inv("words_accounted", n_in == base + hw + tw)
        c.inv("witness_in_head_buffer", z3.Implies(in_head, rd_mem(off_h) == v))
        c.inv("witness_in_tail_buffer", z3.Implies(in_tail, wr_mem(off_t) == v))
        c.inv("witness_in_read_register",
              z3.Implies(z3.And(fsm.is_("SEND_PACKET"), in_head, off_h == zx(widx, K)), rd_rp == v))
        both("payload_is_the_accepted_word",
             z3.Implies(z3.And(B(onbus), in_head, off_h + 1 == zx(widx, K)), O["o_tx_payload"] == v),
             clause="delivers the stream exactly once in order: the i-th word handed to the transmitter (over all "
                    "acknowledged packets, retries included) is the i-th word accepted from the input stream")
        c.cover("witness_word_on_bus", z3.And(B(onbus), in_head, off_h + 1 == zx(widx, K), k == 2))

        # ---------------------------------------------------------------- vacuity
        c.cover("nrdy", B(O["o_nrdy"]))
        c.cover("nrdy_on_ack", z3.And(B(O["o_nrdy"]), adv))
        c.cover("erdy", B(O["o_erdy"]))
        c.cover("erdy_completed", erdy_done)
        c.cover("done_of_an_earlier_packet_while_erdy_is_requested", z3.And(s_erdy, B(I["i_done"]), z3.Not(B(acc))))
        shallow = M <= 32            # a ZLP needs a full-size packet first: M/4 input words and as many output words
        c.cover("zlp_after_full_packet", z3.And(B(O["o_tx_zlp"]), z3.Not(rty)), reach=shallow)
        c.cover("zlp_in_ack_cycle", z3.And(B(O["o_tx_zlp"]), req_ack), reach=shallow)
        c.cover("zlp_retry", z3.And(B(O["o_tx_zlp"]), rty), reach=shallow)
        c.cover("retry_data", z3.And(rty, head == DATA))
        c.cover("short_packet_last_word", z3.And(B(onbus), is_last_word, rem == 2))
        c.cover("second_packet", z3.And(B(onbus), seq == 1))
        c.cover("both_buffers_full", z3.And(B(tcomp), head == DATA))
        c.cover("stalled_last_word", z3.And(B(onbus), is_last_word, z3.Not(B(I["i_tx_ready"]))))
        c.cover_depth = 30
        c.timeout_s = 240
    return contract


# ===================================================================================== wiring (caller-side obligations)
# The endpoint contract above cuts at SuperSpeedEndpointInterface: tx.ready, handshakes_in.*, handshakes_out.done and
# ep_reset are free inputs, and its ensures speak about the endpoint's OWN tx stream / header fields / handshake
# requests.  What the host sees is what the glue makes of them: SuperSpeedEndpointMultiplexer (N endpoints -> one
# interface) and USB3ProtocolLayer (that interface -> link layer / transaction packet units).  The obligations below
# are stated on the netlists of those real parents with every interface signal a free input, so each holds FOR ALL
# VALUES of everything not named in it (in particular whatever the other endpoints' payload / parameter lines carry).

def signals_of(obj, prefix=""):
    """{name: Signal} for every Signal of an interface object: Records recursively (every field), plain attribute
    containers through their public attributes."""
    from amaranth.hdl import Record, Signal
    out = {}
    if isinstance(obj, Signal):
        out[prefix.rstrip("_")] = obj
    elif isinstance(obj, Record):
        for f in obj.fields:
            out.update(signals_of(obj.fields[f], prefix + f + "_"))
    else:
        for k, v in vars(obj).items():
            if not k.startswith("_") and isinstance(v, (Signal, Record)):
                out.update(signals_of(v, prefix + k + "_"))
    return out


def exactly(sel, i):
    return z3.And(sel[i], *[z3.Not(s) for j, s in enumerate(sel) if j != i])


TX_STREAM = ("valid", "payload", "first", "last")
TX_HEADER = ("tx_zlp", "tx_length", "tx_endpoint_number", "tx_sequence_number", "tx_direction")
HS_OUT_REQ = ("send_ack", "send_stall", "send_nrdy", "send_erdy")
HS_OUT_PARAM = ("endpoint_number", "retry_required", "next_sequence")


def make_mux_wiring(n):
    def mux_wiring(c):
        from luna.gateware.usb.usb3.protocol.endpoint import SuperSpeedEndpointMultiplexer, SuperSpeedEndpointInterface
        d = SuperSpeedEndpointMultiplexer()
        ifs = [SuperSpeedEndpointInterface() for _ in range(n)]
        for x in ifs:
            d.add_interface(x)
        ports = signals_of(d.shared, "shared_")
        for k, x in enumerate(ifs):
            ports.update(signals_of(x, f"ep{k}_"))
        ts = c.unit(d, ports)
        of, sh = ts.of, d.shared
        eq = lambda a, b: of(a) == of(b)

        # ---- transmit side: tx stream AND the header parameters travel together
        sel = [z3.Or(of(x.tx.valid) != 0, of(x.tx_zlp) == 1) for x in ifs]        # endpoint k is transmitting / asks for a ZLP
        for k, x in enumerate(ifs):
            c.lemma(f"ep{k}_tx_stream_reaches_shared_when_only_transmitter",
                    z3.Implies(exactly(sel, k), z3.And(eq(sh.tx.valid, x.tx.valid), z3.Implies(of(x.tx.valid) != 0, z3.And(
                        *[eq(getattr(sh.tx, f), getattr(x.tx, f)) for f in TX_STREAM])))),
                    clause="answers an IN request with a data packet: the tx stream (valid/payload/first/last) the link layer sees is the "
                           "transmitting endpoint's, whatever the other endpoints' lines carry")
            c.lemma(f"ep{k}_tx_header_fields_reach_shared_when_only_transmitter",
                    z3.Implies(exactly(sel, k), z3.And(*[eq(getattr(sh, f), getattr(x, f)) for f in TX_HEADER if f != "tx_length"],
                                                       z3.Implies(of(x.tx.valid) != 0, eq(sh.tx_length, x.tx_length)))),
                    clause="numbers packets with consecutive sequence numbers / ZLP transfer ends: tx_zlp, tx_length, tx_endpoint_number, "
                           "tx_sequence_number and tx_direction seen by the link layer are the transmitting endpoint's - in data cycles "
                           "and in the cycle of a ZLP strobe (tx.valid = 0) alike (tx_length: in data cycles; a ZLP has length 0)")
            c.lemma(f"ep{k}_tx_ready_reaches_transmitter", z3.Implies(z3.And(exactly(sel, k), of(x.tx.valid) != 0), eq(x.tx.ready, sh.tx.ready)),
                    clause="delivers the stream exactly once: the transmitting endpoint sees the link layer's tx.ready")
        c.lemma("no_tx_without_a_transmitting_endpoint",
                z3.Implies(z3.Not(z3.Or(*sel)), z3.And(of(sh.tx.valid) == 0, of(sh.tx_zlp) == 0)),
                clause="a data packet / ZLP is only sent when an endpoint sends one")
        c.lemma("tx_valid_or_zlp_reaches_shared_whenever_an_endpoint_transmits",
                z3.Implies(z3.Or(*sel), z3.Or(of(sh.tx.valid) != 0, of(sh.tx_zlp) == 1)),
                clause="answers an IN request with a data packet")

        # ---- handshake generator interface (NRDY / ERDY / ACK / STALL requests)
        act = [z3.Or(*[of(getattr(x.handshakes_out, f)) == 1 for f in HS_OUT_REQ]) for x in ifs]
        for k, x in enumerate(ifs):
            c.lemma(f"ep{k}_handshake_request_reaches_generator_when_only_requester",
                    z3.Implies(exactly(act, k), z3.And(*[eq(getattr(sh.handshakes_out, f), getattr(x.handshakes_out, f))
                                                        for f in HS_OUT_REQ + HS_OUT_PARAM])),
                    clause="NRDY otherwise / notifies the host with ERDY: every request strobe (send_ack/stall/nrdy/erdy) and its parameters "
                           "(endpoint_number, retry_required, next_sequence) reach the transaction packet generator")
            c.lemma(f"ep{k}_sees_generator_ready_and_done_while_requesting",
                    z3.Implies(exactly(act, k), z3.And(eq(x.handshakes_out.ready, sh.handshakes_out.ready),
                                                       eq(x.handshakes_out.done, sh.handshakes_out.done))),
                    clause="ERDY is requested until the generator reports done: the requesting endpoint sees the generator's ready/done")
        for k, x in enumerate(ifs):
            c.lemma(f"ep{k}_is_told_ready_only_while_its_request_is_the_one_forwarded",
                    z3.Implies(of(x.handshakes_out.ready) == 1,
                               z3.And(act[k], of(sh.handshakes_out.ready) == 1,
                                      *[eq(getattr(sh.handshakes_out, f), getattr(x.handshakes_out, f)) for f in HS_OUT_REQ + HS_OUT_PARAM])),
                    clause="notifies the host with ERDY: whichever endpoints request at the same time, the generator's `ready` (= request taken "
                           "up) is shown only to the endpoint whose request (strobes and parameters) is the one the generator sees - so two "
                           "endpoints never both take one acceptance for their own")
            c.lemma(f"ep{k}_sees_done_whenever_it_is_requesting", z3.Implies(act[k], eq(x.handshakes_out.done, sh.handshakes_out.done)),
                    clause="the completion of the packet in progress is shown to every requesting endpoint (the accepted one recognises its own)")
        c.lemma("no_handshake_request_without_a_requesting_endpoint",
                z3.Implies(z3.Not(z3.Or(*act)), z3.And(*[of(getattr(sh.handshakes_out, f)) == 0 for f in HS_OUT_REQ])),
                clause="transaction packets are only sent on an endpoint's request")

        # ---- broadcast side: every endpoint sees the host's handshakes, the receive path and the device state unchanged
        for k, x in enumerate(ifs):
            c.lemma(f"ep{k}_sees_received_handshakes",
                    z3.And(*[eq(getattr(x.handshakes_in, f), getattr(sh.handshakes_in, f)) for f in sh.handshakes_in.fields]),
                    clause="for any host behaviour: every field of handshakes_in (ACK strobe, endpoint number, NumP, next sequence, retry, ...) "
                           "reaches every endpoint")
            c.lemma(f"ep{k}_sees_receive_path",
                    z3.And(*[eq(getattr(x.rx, f), getattr(sh.rx, f)) for f in TX_STREAM],
                           *[eq(getattr(x.rx_header, f), getattr(sh.rx_header, f)) for f in sh.rx_header.fields],
                           eq(x.rx_complete, sh.rx_complete), eq(x.rx_invalid, sh.rx_invalid)),
                    clause="(OUT direction) rx stream, rx_header (every field), rx_complete, rx_invalid are broadcast")
            c.lemma(f"ep{k}_sees_device_state",
                    z3.And(eq(x.active_address, sh.active_address), eq(x.active_config, sh.active_config),
                           of(x.ep_reset) == z3.If(z3.Or(*[of(y.config_changed) == 1 for y in ifs]), bvc(1, 1), bvc(0, 1))),
                    clause="sequence numbers restart on ep_reset: ep_reset is raised for every endpoint exactly when some endpoint "
                           "reports a configuration change; active address / configuration are broadcast")
        # ---- address / configuration changes (control endpoint -> device)
        for strobe, value in (("address_changed", "new_address"), ("config_changed", "new_config")):
            on = [of(getattr(x, strobe)) == 1 for x in ifs]
            c.lemma(f"{strobe}_is_or_of_endpoints", (of(getattr(sh, strobe)) == 1) == z3.Or(*on))
            for k, x in enumerate(ifs):
                c.lemma(f"ep{k}_{value}_selected_when_only_source", z3.Implies(exactly(on, k), eq(getattr(sh, value), getattr(x, value))))
        c.cosim_cycles = 16
    return mux_wiring


def same(ts, a, b):
    """Signal a carries signal b: same declared width (a narrower declaration would truncate) and equal value."""
    from hwv.extract import BindingError
    try:
        ta = ts.of(a)
    except BindingError:
        return z3.BoolVal(True)         # nothing in the design reads or drives `a`: no reader to mislead
    try:
        tb = ts.of(b)
    except BindingError:
        return z3.BoolVal(False)        # `a` exists but the intended source is not part of the design at all
    return z3.BoolVal(False) if ta.size() != tb.size() else ta == tb


def record_same(ts, a, b, fields=None):
    """every field of Record a equals the same field of Record b"""
    sa, sb = signals_of(a), signals_of(b)
    assert set(sa) == set(sb), (set(sa) ^ set(sb))
    return z3.And(*[same(ts, sa[f], sb[f]) for f in sa if fields is None or f in fields])


def open_protocol_layer(c):
    """The real USB3ProtocolLayer; the link layer object it is handed is the open sidecar record container of C47, and every
    signal of both interfaces is a port (free input unless the layer drives it)."""
    from luna.gateware.usb.usb3.protocol.layer import USB3ProtocolLayer
    from .c47_timestamp import OpenLinkLayer
    link = OpenLinkLayer()
    d = USB3ProtocolLayer(link_layer=link)
    ports = signals_of(link, "link_")
    ports.update(signals_of(d.endpoint_interface, "ep_"))
    ports.update({"current_address": d.current_address, "current_configuration": d.current_configuration, "bus_interval": d.bus_interval})
    ts = c.unit(d, ports)
    return d, link, ts


def header_queue_consumer_sees(ts, consumer, producer):
    """consumer.valid / consumer.header.* are the producer's (the ready path is stated separately)"""
    return z3.And(same(ts, consumer.valid, producer.valid), record_same(ts, consumer.header, producer.header))


def header_arbiter_path(c, ts, arb, producers, sink, label):
    """Call-side obligations for a HeaderQueueArbiter `arb` whose merged queue feeds the HeaderQueue `sink`: stated over the
    producers' and the sink's signals only (not over the arbiter's selection register), for all arbiter states.
    `producers`: [(name, HeaderQueue)] in priority order."""
    of = ts.of
    c.lemma(f"{label}_arbiter_has_exactly_the_intended_producers", z3.BoolVal(len(arb._sinks) == len(producers)))
    for (name, q), a in zip(producers, arb._sinks):
        c.lemma(f"{label}_{name}_is_an_arbiter_input", z3.And(header_queue_consumer_sees(ts, a, q), same(ts, q.ready, a.ready)),
                clause=f"{name}'s header queue (valid, every header field; ready back) is one of the arbiter's inputs")
        c.lemma(f"{label}_header_taken_from_{name}_is_the_header_handed_on",
                z3.Implies(of(q.ready) == 1, z3.And(of(sink.ready) == 1, same(ts, sink.valid, q.valid), record_same(ts, sink.header, q.header))),
                clause=f"exactly one packet per request: {name} is told 'taken' (ready) only in a cycle in which the consumer takes, and "
                       f"what the consumer is offered in that cycle is {name}'s header, every field")
        others = [o for n, o in producers if n != name]
        c.lemma(f"{label}_{name}_alone_is_served",
                z3.Implies(z3.And(of(q.valid) == 1, of(sink.valid) == 1, *[of(o.valid) == 0 for o in others]),
                           z3.And(record_same(ts, sink.header, q.header), same(ts, q.ready, sink.ready))),
                clause=f"a header offered while only {name} has one is {name}'s, and the consumer's ready reaches {name}")
    c.lemma(f"{label}_no_header_without_a_producer", z3.Implies(of(sink.valid) == 1, z3.Or(*[of(q.valid) == 1 for _, q in producers])),
            clause="no packet without a request")
    c.lemma(f"{label}_consumer_is_fed_by_the_arbiter", z3.And(header_queue_consumer_sees(ts, sink, arb.source), same(ts, arb.source.ready, sink.ready)))


def open_link_layer(c, freq=125e6):
    """The real USB3LinkLayer.  The physical layer object it is handed is a real USB3PhysicalLayer that is NOT elaborated (it
    is not a submodule of the link layer): it only supplies the interface signals, and every public signal of both layers'
    interfaces is a port (free input unless the link layer drives it)."""
    from luna.gateware.interface.pipe import PIPEInterface
    from luna.gateware.usb.usb3.physical.layer import USB3PhysicalLayer
    from luna.gateware.usb.usb3.link.layer import USB3LinkLayer
    phy = USB3PhysicalLayer(phy=PIPEInterface(width=4), sync_frequency=1e6)
    d = USB3LinkLayer(physical_layer=phy, ss_clock_frequency=freq)
    ports = signals_of(phy, "phy_")
    ports.update(signals_of(d, "ll_"))
    ts = c.unit(d, ports)
    c.cosim_cycles = 4
    return d, phy, ts


RAW_WORD = ("valid", "payload", "ctrl")               # what the physical layer transmits / the receivers look at
RAW_TAP = ("valid", "payload", "ctrl", "first", "last")


def stream_same(ts, a, b, fields=RAW_TAP):
    return z3.And(*[same(ts, getattr(a, f), getattr(b, f)) for f in fields])


def raw_stream_to_phy(c, ts, arb, index, entry, producer, name, phy, label):
    """Call-side obligations for one input of the link layer's transmit SuperSpeedStreamArbiter: `entry` is the stream handed to
    arbiter.add_stream() at priority position `index`, `producer` the unit output that drives it (may be the same object)."""
    of = ts.of
    ok = len(arb._sinks) > index
    c.lemma(f"{label}_{name}_is_transmit_arbiter_input_{index}",
            z3.And(stream_same(ts, arb._sinks[index], entry), same(ts, entry.ready, arb._sinks[index].ready),
                   stream_same(ts, entry, producer), same(ts, producer.ready, entry.ready)) if ok else z3.BoolVal(False),
            clause=f"{name}'s output stream (valid, data, ctrl, first, last; ready back) is input {index} of the transmit arbiter")
    c.lemma(f"{label}_word_taken_from_{name}_is_the_word_given_to_the_phy",
            z3.Implies(of(producer.ready) == 1, z3.And(of(phy.sink.ready) == 1, stream_same(ts, phy.sink, producer, RAW_WORD))),
            clause=f"{name} is told 'taken' (ready) only in a cycle in which the physical layer takes a word, and that word (valid, data, "
                   f"ctrl) is {name}'s")
    others = [o for k, o in enumerate(arb._sinks) if k != index]
    c.lemma(f"{label}_{name}_alone_is_served",
            z3.Implies(z3.And(of(producer.valid) == 1, of(phy.can_send_skp) == 0, of(phy.sink.valid) == 1, *[of(o.valid) == 0 for o in others]),
                       z3.And(stream_same(ts, phy.sink, producer, RAW_WORD), same(ts, producer.ready, phy.sink.ready))),
            clause=f"a word given to the physical layer in place of no idle filler while only {name} has one is {name}'s, and the "
                   f"physical layer's ready reaches {name}")


def path_of(ts, inst):
    """hierarchical module path (as used by ts.sig) of a sub-Elaboratable instance found with ts.instance(): robust against the
    parent renaming its m.submodules entry"""
    info = ts.design.fragments[ts.design.elaboratables[inst]]
    return ts._strip(".".join(info.name[1:]))


def instance_is_contracted_unit(c, ts, path, inst, ref, inputs, outputs, label, clause):
    """Call obligation for a parameterised sub-unit: the instance `inst` that the parent's elaborate() created (module path `path`
    in the parent netlist `ts`) is the unit that the unit-level contract verifies - `ref`, the same class elaborated separately
    with the contracted parameters.  Stated as valid formulas over the parent's state and inputs: both have the same registers
    (names, widths, reset values), and with ref's registers / inputs replaced by the instance's registers / input signals every
    next-state function and every output of ref equals the instance's.  A different clock parameter, FSM option or register
    width makes the register sets or the functions differ."""
    from hwv.extract import TS, BindingError
    rports = {f"i_{n}": getattr(ref, n) for n in inputs}
    rports.update({f"o_{n}": getattr(ref, n) for n in outputs})
    tr = TS(ref, rports, prefix=label + ".")
    c.functions.append(f"{type(ref).__module__}.{type(ref).__qualname__}.elaborate (reference configuration for the instance at {path})")
    sub = []
    for n in inputs:
        if f"i_{n}" in tr.inputs:
            try:
                sub.append((tr.inputs[f"i_{n}"], ts.of(getattr(inst, n))))
            except BindingError:          # nothing in the parent reads or drives it (then the unit does not read it either): left free
                pass
    for n, v in tr.inputs.items():        # clock-domain reset inputs: the parent's input of the same name
        if not n.startswith("i_") and n in ts.inputs:
            sub.append((v, ts.inputs[n]))

    def regs(t, prefix):
        out = {}
        for k, v in t.state.items():
            name = t._strip(str(v))
            if name.startswith(prefix + "."):
                out.setdefault(name[len(prefix) + 1:], []).append(k)
        return out
    mine, theirs = regs(ts, (ts.prefix or "") + path), regs(tr, label)
    shape = lambda t, r: {n: [(t.state[k].sort().kind(), t.state[k].size() if z3.is_bv(t.state[k]) else 0, str(t.init[k])) for k in ks]
                          for n, ks in r.items()}
    ok = bool(mine) and shape(ts, mine) == shape(tr, theirs)
    c.lemma(f"{label}_instance_has_the_registers_of_the_contracted_configuration", z3.BoolVal(ok),
            clause=clause + " (same registers, widths and reset values)")
    if not ok:
        return tr
    pairs = [(km, kt) for n in sorted(mine) for km, kt in zip(mine[n], theirs[n])]
    sub += [(tr.state[kt], ts.state[km]) for km, kt in pairs]
    c.lemma(f"{label}_next_state_functions_are_the_contracted_ones",
            z3.And(*[ts.next[km] == z3.substitute(tr.next[kt], *sub) for km, kt in pairs]), clause=clause)
    c.lemma(f"{label}_output_functions_are_the_contracted_ones",
            z3.And(*[ts.of(getattr(inst, n)) == z3.substitute(tr.outputs[f"o_{n}"], *sub) for n in outputs
                     if f"o_{n}" in tr.outputs]),          # (a port the unit never drives has no value to compare)
            clause=clause)
    return tr


def protocol_layer_wiring(c):
    """USB3ProtocolLayer.elaborate(): the (shared) endpoint interface <-> link layer data path / transaction packet receiver."""
    from luna.gateware.usb.usb3.protocol.transaction import TransactionPacketReceiver
    from luna.gateware.usb.usb3.protocol.data import DataHeaderReceiver
    from luna.gateware.usb.usb3.protocol.timestamp import TimestampPacketReceiver
    from luna.gateware.usb.usb3.protocol.link_management import LinkManagementPacketHandler
    d, link, ts = open_protocol_layer(c)
    of, ep = ts.of, d.endpoint_interface
    S = lambda a, b: same(ts, a, b)
    # ---- IN data path: endpoint interface -> link layer's data packet transmitter
    c.lemma("link_data_sink_is_endpoint_tx_stream",
            z3.And(*[S(getattr(link.data_sink, f), getattr(ep.tx, f)) for f in TX_STREAM], S(ep.tx.ready, link.data_sink.ready)),
            clause="answers an IN request with a data packet / delivers the stream exactly once in order: the link layer's data_sink is the "
                   "endpoint interface's tx stream (valid, payload, first, last; ready back)")
    c.lemma("link_data_header_parameters_are_endpoint_tx_parameters",
            z3.And(S(link.data_sink_send_zlp, ep.tx_zlp), S(link.data_sink_length, ep.tx_length),
                   S(link.data_sink_endpoint_number, ep.tx_endpoint_number), S(link.data_sink_sequence_number, ep.tx_sequence_number),
                   S(link.data_sink_direction, ep.tx_direction)),
            clause="numbers packets with consecutive sequence numbers / ZLP transfer ends: send_zlp, length, endpoint number, sequence number "
                   "(all 5 bits) and direction given to the link layer are the endpoint interface's")
    # ---- host handshakes: link header queue -> demultiplexer -> TransactionPacketReceiver -> endpoint interface
    rxr = ts.instance(TransactionPacketReceiver)
    c.lemma("endpoint_handshakes_in_is_tp_receiver_interface", record_same(ts, ep.handshakes_in, rxr.interface),
            clause="for any host behaviour: every field of handshakes_in is the transaction packet receiver's report")
    consumers = [ts.instance(LinkManagementPacketHandler), ts.instance(TimestampPacketReceiver), ts.instance(DataHeaderReceiver), rxr]
    for u in consumers:
        c.lemma(f"{type(u).__name__}_sees_every_received_header", header_queue_consumer_sees(ts, u.header_sink, link.header_source),
                clause="every header the link layer offers (valid, all header fields) is shown to each protocol-layer header consumer")
    c.lemma("received_header_is_consumed_iff_a_consumer_takes_it",
            (of(link.header_source.ready) == 1) == z3.Or(*[of(u.header_sink.ready) == 1 for u in consumers]),
            clause="a received header leaves the link layer's queue exactly when one of the consumers accepts it")
    # ---- OUT data path (broadcast to the endpoints)
    c.lemma("endpoint_rx_is_link_data_source",
            z3.And(*[S(getattr(ep.rx, f), getattr(link.data_source, f)) for f in TX_STREAM],
                   record_same(ts, ep.rx_header, link.data_header_from_host),
                   S(ep.rx_complete, link.data_source_complete), S(ep.rx_invalid, link.data_source_invalid)),
            clause="(OUT direction) rx stream, rx_header (every field), rx_complete / rx_invalid are the link layer's")
    lmp = consumers[0]
    c.lemma("lmp_handler_sees_link_state", z3.And(S(lmp.usb_reset, link.in_reset), S(lmp.link_ready, link.ready)))
    c.cosim_cycles = 16


def link_layer_data_tx_wiring(c):
    """USB3LinkLayer.elaborate(): data_sink + header parameters -> DataPacketTransmitter -> (header) HeaderQueueArbiter ->
    PacketTransmitter.queue and (payload) RawPacketTransmitter.data_sink -> transmit arbiter -> physical layer."""
    from .c37_header_receive import LinkLayerUnits
    from .c39_header_transmit import lemmas_headers_reach_the_transmitter, lemmas_packets_reach_the_phy
    U = LinkLayerUnits(c)
    S, d, tx, ts = U.S, U.d, U.data_tx, U.ts
    c.lemma("data_transmitter_stream_is_link_data_sink",
            z3.And(stream_same(ts, tx.data_sink, d.data_sink, TX_STREAM), S(d.data_sink.ready, tx.data_sink.ready)),
            clause="delivers the stream exactly once in order: DataPacketTransmitter.data_sink is the layer's data_sink (valid, payload, first, last; ready back)")
    c.lemma("data_transmitter_header_parameters_are_link_parameters",
            z3.And(S(tx.send_zlp, d.data_sink_send_zlp), S(tx.sequence_number, d.data_sink_sequence_number),
                   S(tx.endpoint_number, d.data_sink_endpoint_number), S(tx.data_length, d.data_sink_length),
                   S(tx.direction, d.data_sink_direction), S(tx.address, d.current_address)),
            clause="numbers packets with consecutive sequence numbers / ZLP transfer ends: send_zlp, sequence number, endpoint number, length, "
                   "direction and device address of the data header are the layer's inputs")
    lemmas_headers_reach_the_transmitter(c, U)
    lemmas_packets_reach_the_phy(c, U)


def open_superspeed_device(c, endpoints, extra_ports=None):
    """The real USBSuperSpeedDevice on an open PIPEInterface (a bundle of signals: no PHY model, no vendor primitive) with the given
    endpoint objects added; every PIPE signal, every public signal of the device and `extra_ports` are ports (free inputs unless
    the design drives them).  Returns (device, pipe, ts)."""
    from luna.gateware.interface.pipe import PIPEInterface
    from luna.gateware.usb.usb3.device import USBSuperSpeedDevice
    pipe = PIPEInterface(width=4)
    d = USBSuperSpeedDevice(phy=pipe, sync_frequency=50e6)
    for e in endpoints:
        d.add_endpoint(e)
    ports = {(k + "_pin" if k.endswith(("_clk", "_rst")) else k): v for k, v in signals_of(pipe, "pipe_").items()}   # (not clock domains)
    ports.update(signals_of(d, "dev_"))
    ports.update(extra_ports or {})
    ts = c.unit(d, ports)
    return d, pipe, ts


def device_wiring(c):
    """USBSuperSpeedDevice.elaborate() with two real SuperSpeedStreamInEndpoints (endpoints 1 and 2) added: the real endpoints sit
    behind the real multiplexer, protocol layer and link layer.  End-to-end call obligations from each endpoint's interface to the
    DataPacketTransmitter / TransactionPacketGenerator / TransactionPacketReceiver instances, for all states of everything."""
    from luna.gateware.interface.pipe import PIPEInterface
    from luna.gateware.usb.usb3.device import USBSuperSpeedDevice
    from luna.gateware.usb.usb3.protocol.endpoint import SuperSpeedEndpointMultiplexer
    from luna.gateware.usb.usb3.protocol.layer import USB3ProtocolLayer
    from luna.gateware.usb.usb3.protocol.transaction import TransactionPacketGenerator, TransactionPacketReceiver
    from luna.gateware.usb.usb3.link.layer import USB3LinkLayer
    from luna.gateware.usb.usb3.link.data import DataPacketTransmitter
    eps = [SuperSpeedStreamInEndpoint(endpoint_number=1, max_packet_size=16), SuperSpeedStreamInEndpoint(endpoint_number=2, max_packet_size=64)]
    d, pipe, ts = open_superspeed_device(c, eps, {k: v for n, e in enumerate(eps) for k, v in signals_of(e.stream, f"ep{n + 1}_stream_").items()})
    of = ts.of
    S = lambda a, b: same(ts, a, b)
    mux, proto, link = ts.instance(SuperSpeedEndpointMultiplexer), ts.instance(USB3ProtocolLayer), ts.instance(USB3LinkLayer)
    dtx, gen, rxr = ts.instance(DataPacketTransmitter), ts.instance(TransactionPacketGenerator), ts.instance(TransactionPacketReceiver)
    sh, pe = mux.shared, proto.endpoint_interface
    c.lemma("every_added_endpoint_is_a_multiplexer_interface",
            z3.BoolVal(len(mux._interfaces) == len(eps) and all(a is e.interface for a, e in zip(mux._interfaces, eps))))
    # ---- device level: multiplexer's shared interface <-> protocol layer's endpoint interface, field by field
    c.lemma("protocol_tx_is_multiplexer_shared_tx",
            z3.And(stream_same(ts, pe.tx, sh.tx, TX_STREAM), S(sh.tx.ready, pe.tx.ready), *[S(getattr(pe, f), getattr(sh, f)) for f in TX_HEADER]),
            clause="tx stream (valid, payload, first, last; ready back) and tx_zlp / tx_length / tx_endpoint_number / tx_sequence_number / "
                   "tx_direction of the protocol layer are the multiplexer's shared ones")
    c.lemma("protocol_handshakes_are_multiplexer_shared_handshakes",
            z3.And(record_same(ts, pe.handshakes_out, sh.handshakes_out), record_same(ts, sh.handshakes_in, pe.handshakes_in)),
            clause="every field of handshakes_out (requests and parameters to the generator, ready / done back) and of handshakes_in")
    c.lemma("multiplexer_rx_is_protocol_rx",
            z3.And(stream_same(ts, sh.rx, pe.rx, TX_STREAM), record_same(ts, sh.rx_header, pe.rx_header), S(sh.rx_complete, pe.rx_complete),
                   S(sh.rx_invalid, pe.rx_invalid)), clause="(OUT direction) receive path")
    c.lemma("layers_share_the_device_address", z3.And(S(link.current_address, proto.current_address), S(dtx.address, gen.address)),
            clause="data headers and transaction packets carry the same device address register")
    # ---- end to end, per real endpoint
    sel = [z3.Or(of(e.interface.tx.valid) != 0, of(e.interface.tx_zlp) == 1) for e in eps]
    act = [z3.Or(*[of(getattr(e.interface.handshakes_out, f)) == 1 for f in HS_OUT_REQ]) for e in eps]
    for k, e in enumerate(eps):
        i, n = e.interface, k + 1
        c.lemma(f"ep{n}_data_and_header_parameters_reach_the_data_packet_transmitter",
                z3.Implies(exactly(sel, k), z3.And(
                    S(dtx.data_sink.valid, i.tx.valid), S(dtx.send_zlp, i.tx_zlp), S(dtx.sequence_number, i.tx_sequence_number),
                    S(dtx.endpoint_number, i.tx_endpoint_number), S(dtx.direction, i.tx_direction),
                    z3.Implies(of(i.tx.valid) != 0, z3.And(stream_same(ts, dtx.data_sink, i.tx, TX_STREAM), S(dtx.data_length, i.tx_length),
                                                           S(i.tx.ready, dtx.data_sink.ready))))),
                clause="answers an IN request with a data packet / consecutive sequence numbers / ZLP transfer ends: what the link layer's "
                       "DataPacketTransmitter samples (stream, send_zlp, sequence number, endpoint number, direction, length) is the "
                       "transmitting endpoint's, in data cycles and in the cycle of a ZLP strobe")
        c.lemma(f"ep{n}_nrdy_erdy_requests_reach_the_transaction_packet_generator",
                z3.Implies(exactly(act, k), z3.And(*[S(getattr(gen.interface, f), getattr(i.handshakes_out, f)) for f in HS_OUT_REQ + HS_OUT_PARAM],
                                                   S(i.handshakes_out.done, gen.interface.done), S(i.handshakes_out.ready, gen.interface.ready))),
                clause="NRDY otherwise / notifies the host with ERDY: the requesting endpoint's strobes and parameters are the generator's "
                       "inputs, and it sees the generator's ready / done")
        c.lemma(f"ep{n}_sees_the_transaction_packet_receiver_and_configuration_changes",
                z3.And(record_same(ts, i.handshakes_in, rxr.interface), S(i.ep_reset, sh.config_changed)),
                clause="for any host behaviour: the endpoint's handshakes_in is the TransactionPacketReceiver's report")
    # ---- the generator's `done` completes an endpoint's ERDY request only if it is the ERDY packet of that endpoint
    # Discharges the reading of handshakes_out.ready / done in the endpoint contract above (ghost `erdy_accepted`): spec-side
    # ghost per endpoint, defined on the endpoint's interface signals only: its ERDY request was shown `ready` and has not been
    # completed or withdrawn since.  Invariant / ensure are stated on the generator's public header queue.
    taken = z3.And(of(gen.header_source.valid) == 1, of(gen.header_source.ready) == 1)
    dw0, dw1 = of(gen.header_source.header.dw0), of(gen.header_source.header.dw1)
    for k, e in enumerate(eps):
        ho, n = e.interface.handshakes_out, k + 1
        req, rdy, done = of(ho.send_erdy) == 1, of(ho.ready) == 1, of(ho.done) == 1
        acc = c.ghost(f"ep{n}_erdy_accepted", 1)
        c.set_next(acc, z3.And(req, z3.Not(z3.And(done, acc == 1)), z3.Or(acc == 1, rdy)))
        erdy_packet_for_ep = z3.And(of(gen.header_source.valid) == 1, z3.Extract(4, 0, dw0) == 4, z3.Extract(3, 0, dw1) == 3,
                                    z3.Extract(11, 8, dw1) == n)
        c.inv(f"ep{n}_accepted_erdy_request_is_the_packet_the_generator_offers", z3.Implies(z3.And(acc == 1, req), erdy_packet_for_ep))
        c.ensure(f"ep{n}_done_after_acceptance_is_its_erdy_packet_being_taken",
                 z3.Implies(z3.And(req, acc == 1, done), z3.And(erdy_packet_for_ep, taken)),
                 clause="notifies the host with ERDY once data becomes available after an NRDY: the `done` that ends an endpoint's (accepted) "
                        "ERDY request is the cycle in which an ERDY transaction packet for that endpoint is taken by the link layer")
        c.cover(f"ep{n}_erdy_accepted", acc == 1, reach=False)
    c.cosim_cycles = 4


def contracts(tier):
    yield ("SuperSpeedStreamInEndpoint", "mps16_ep1", make(16, 1))
    yield ("USBSuperSpeedDevice", "wiring_two_in_endpoints", device_wiring)
    yield ("USB3LinkLayer", "wiring_data_tx", link_layer_data_tx_wiring)
    yield ("USB3ProtocolLayer", "wiring_endpoint_interface", protocol_layer_wiring)
    yield ("SuperSpeedEndpointMultiplexer", "wiring_3_endpoints", make_mux_wiring(3))
    if tier == "thorough":
        yield ("SuperSpeedEndpointMultiplexer", "wiring_1_endpoint", make_mux_wiring(1))
        yield ("SuperSpeedEndpointMultiplexer", "wiring_5_endpoints", make_mux_wiring(5))
        yield ("SuperSpeedStreamInEndpoint", "mps1024_ep1", make(1024, 1))
        yield ("SuperSpeedStreamInEndpoint", "mps8_ep3", make(8, 3))
        yield ("SuperSpeedStreamInEndpoint", "mps512_ep15", make(512, 15))
