"""C46 — SuperSpeed IN endpoints deliver data and signal readiness correctly (SuperSpeedStreamInEndpoint, domain `ss`).

Method: a spec-side protocol machine (ghost state, driven by the endpoint's *inputs only*) computes what an IN endpoint has
to do in every cycle; each ensure says "the real output equals the spec output"; the invariant is the refinement map
between the FSM/registers and the ghost machine.

Ghost machine (M = max packet size, N = endpoint number)
  tail  : fill (bytes accepted into the packet being filled), tended (it received `last`), tcomp (it is complete:
          `last` seen or M bytes) ;  a word is accepted iff valid.any ∧ ¬tcomp
  head  : EMPTY | DATA(hlen, hended) | ZLP     the oldest complete, not yet acknowledged packet.  A complete tail is
          promoted to head as soon as head is EMPTY; an acknowledged DATA head of exactly M bytes that ended a transfer
          leaves a ZLP head behind ("short-packet/ZLP transfer ends")
  phase : IDLE | SENDING(widx = words put on the tx stream, onbus = a word is waiting for tx.ready) | AWAIT (completely
          transmitted, waiting for the host's verdict)
  seq   : number of acknowledged packets mod 32 since ep_reset;   nrdy_out : an NRDY was sent and neither an ERDY was
          completed nor an IN request answered since
  events: in_tok = ACK header to endpoint N with number_of_packets != 0;  verdict = phase AWAIT ∧ ACK to N;
          adv = verdict ∧ ¬retry ∧ next_sequence == seq+1;  rty = verdict ∧ ¬adv;
          request = (IDLE ∧ in_tok) ∨ (adv ∧ number_of_packets != 0)

Statement clause -> ensures
  "answers an IN request with a data packet when it holds data (NRDY otherwise)"
        nrdy_iff_request_without_data, zlp_iff_due, data_word_follows_request (a word is on the tx stream within one cycle
        whenever a data packet is due), tx_framing (first/last/byte mask/length), tx_holds_until_ready, ready_iff_room
  "notifies the host with ERDY once data becomes available after an NRDY"          erdy_iff_data_after_nrdy
  "numbers packets with consecutive sequence numbers that advance only on the host's ACK"
        header_fields (sequence == seq for every data word and ZLP, seq+1 for the ZLP issued in the acknowledging cycle),
        handshake_endpoint_number
  "resends the same packet when the host asks for a retry"    by the ghost machine: rty keeps head/hlen/seq and re-enters
        SENDING (or repeats the ZLP); header_fields/tx_framing then pin sequence number, length and framing of the resend
  "delivers the stream exactly once in order with short-packet/ZLP transfer ends"
        packetisation and order of packets: by the ghost machine (hlen = bytes accepted, promoted in order, ZLP rule);
        payload: payload_is_the_accepted_word - a witness-symbol argument (rigid index k, captured payload v, invariants
        saying in which of the two packet buffers / read register the k-th accepted word sits): the word with running
        index i on the tx stream (index = words of all acknowledged packets + position in the present packet, so
        retransmissions are included) carries the payload of the i-th accepted input word.  Unbounded.

Scope / assumptions: stream `valid` is 0b0000/0001/0011/0111/1111 and partial words only come with `last`; IN requests
that arrive while a data packet is still being transmitted (phase SENDING) are outside the statement (a host cannot
issue them without bursting) and are ignored by the spec machine.
"""
import z3
from hwv.contract import B, zx, bvc
from luna.gateware.usb.usb3.endpoints.stream import SuperSpeedStreamInEndpoint

LEVEL = "proof"
EXPLANATION = ("Refinement of a spec-side protocol machine (ghost state driven by the inputs only): every control output "
               "(NRDY/ERDY/ZLP/ready), the tx framing, header fields (sequence number, length, endpoint) and - by a "
               "witness-symbol argument over both packet buffers - the payload order are proved for all histories by "
               "1-induction.  Safety only (no claim that the host ever asks).")
ASSUMPTIONS = ["input stream: valid in {0,1,3,7,15}, partial words only together with last",
               "IN requests arriving while a data packet is still being transmitted are not answered (no bursting)",
               "fewer than 2^16 words between a word's acceptance and its acknowledgement (16-bit modular word counters)"]
BOUNDED = []

EMPTY, DATA, ZLP = 0, 1, 2
IDLE, SENDING, AWAIT = 0, 1, 2


def make(M, N):
    def contract(c):
        d = SuperSpeedStreamInEndpoint(endpoint_number=N, max_packet_size=M)
        i = d.interface
        ts = c.unit(d, {
            "i_valid": d.stream.valid, "i_payload": d.stream.payload, "i_last": d.stream.last, "o_ready": d.stream.ready,
            "i_tx_ready": i.tx.ready, "o_tx_valid": i.tx.valid, "o_tx_payload": i.tx.payload, "o_tx_first": i.tx.first,
            "o_tx_last": i.tx.last, "o_tx_zlp": i.tx_zlp, "o_tx_length": i.tx_length, "o_tx_seq": i.tx_sequence_number,
            "o_tx_ep": i.tx_endpoint_number, "o_tx_dir": i.tx_direction,
            "i_ack": i.handshakes_in.ack_received, "i_ep": i.handshakes_in.endpoint_number,
            "i_nump": i.handshakes_in.number_of_packets, "i_nseq": i.handshakes_in.next_sequence,
            "i_retry": i.handshakes_in.retry_required,
            "o_nrdy": i.handshakes_out.send_nrdy, "o_erdy": i.handshakes_out.send_erdy,
            "o_hs_ep": i.handshakes_out.endpoint_number, "i_done": i.handshakes_out.done, "i_ep_reset": i.ep_reset})
        I, O = ts.inputs, dict(ts.outputs)
        for n in [n for n in I if n.startswith("o_")]:
            # an interface output the unit does not drive at all: in hardware it keeps its reset value (0)
            c.require(f"undriven_{n}", I[n] == 0, why=f"{n} is not driven by the unit; an undriven signal holds its reset value 0")
            O[n] = I[n]
        LW = max(M.bit_length() + 2, 6)
        L = lambda v: bvc(v, LW)

        c.require("valid_is_contiguous",
                  z3.And(z3.Or(*[I["i_valid"] == v for v in (0, 1, 3, 7, 15)]),
                         z3.Implies(z3.And(I["i_valid"] != 0, I["i_valid"] != 15), B(I["i_last"]))),
                  why="SuperSpeedStreamInterface: byte lanes are valid from lane 0 up; only the final word of a transfer is partial")

        # ---------------------------------------------------------------- ghost protocol machine
        g = lambda n, w: c.ghost(n, w)
        head, hlen, hended = g("head", 2), g("hlen", LW), g("hended", 1)
        fill, tended, tcomp = g("fill", LW), g("tended", 1), g("tcomp", 1)
        phase, widx, onbus = g("phase", 2), g("widx", LW), g("onbus", 1)
        seq, nrdy_out = g("seq", 5), g("nrdy_out", 1)

        ack_us = z3.And(B(I["i_ack"]), I["i_ep"] == N)
        wants_more = I["i_nump"] != 0
        in_tok = z3.And(ack_us, wants_more)
        any_valid = I["i_valid"] != 0
        nbytes = z3.If(I["i_valid"] == 15, L(4), z3.If(I["i_valid"] == 7, L(3), z3.If(I["i_valid"] == 3, L(2),
                                                                                 z3.If(I["i_valid"] == 1, L(1), L(0)))))
        accept = z3.And(any_valid, z3.Not(B(tcomp)))
        fill_a = z3.If(accept, fill + nbytes, fill)
        tended_a = z3.Or(B(tended), z3.And(accept, B(I["i_last"])))
        tcomp_a = z3.Or(B(tcomp), z3.And(accept, z3.Or(B(I["i_last"]), z3.UGE(fill + 4, L(M)))))

        verdict = z3.And(phase == AWAIT, ack_us)
        adv = z3.And(verdict, z3.Not(B(I["i_retry"])), I["i_nseq"] == seq + 1)
        rty = z3.And(verdict, z3.Not(adv))
        head_k = z3.If(adv, z3.If(z3.And(head == DATA, hlen == M, B(hended)), bvc(ZLP, 2), bvc(EMPTY, 2)), head)
        # A complete tail becomes the head as soon as the head is empty.  In the very cycle of an acknowledgement the tail
        # only counts if it was complete before, or is being completed by the final word of a full multi-word packet
        # (a one-word packet arriving in that cycle cannot be read back from the buffer in time; it is promoted one cycle later).
        full_now = z3.And(accept, z3.UGE(fill + 4, L(M))) if M > 4 else z3.BoolVal(False)
        promote = z3.And(head_k == EMPTY, z3.If(adv, z3.Or(B(tcomp), full_now), tcomp_a))
        head_n = z3.If(promote, bvc(DATA, 2), head_k)
        hlen_n = z3.If(promote, fill_a, z3.If(head_k == DATA, hlen, L(0)))
        hended_n = z3.If(promote, tended_a, z3.And(head_k == DATA, B(hended)))

        req_idle = z3.And(phase == IDLE, in_tok)
        req_ack = z3.And(adv, wants_more)
        s_nrdy = z3.Or(z3.And(req_idle, head == EMPTY), z3.And(req_ack, head_n == EMPTY))
        s_zlp = z3.Or(z3.And(req_idle, head == ZLP), z3.And(req_ack, head_n == ZLP), z3.And(rty, head == ZLP))
        s_start = z3.Or(z3.And(req_idle, head == DATA), z3.And(req_ack, head_n == DATA), z3.And(rty, head == DATA))
        s_erdy = z3.And(phase == IDLE, head != EMPTY, B(nrdy_out))

        # transmit progress
        is_last_word = z3.UGE(widx << 2, hlen)                    # the word on the bus (index widx-1) is the final one
        move = z3.And(phase == SENDING, z3.Or(z3.Not(B(onbus)), B(I["i_tx_ready"])))
        finished = z3.And(move, B(onbus), is_last_word)           # final word taken by the transmitter
        loads = z3.And(move, z3.Not(finished))

        c.set_next(head, head_n); c.set_next(hlen, hlen_n); c.set_next(hended, hended_n)
        c.set_next(fill, z3.If(promote, L(0), fill_a))
        c.set_next(tended, z3.And(z3.Not(promote), tended_a))
        c.set_next(tcomp, z3.And(z3.Not(promote), tcomp_a))
        c.set_next(phase, z3.If(s_start, bvc(SENDING, 2), z3.If(s_zlp, bvc(AWAIT, 2), z3.If(finished, bvc(AWAIT, 2),
                          z3.If(adv, bvc(IDLE, 2), phase)))))
        c.set_next(widx, z3.If(z3.Or(s_start, finished), L(0), z3.If(loads, widx + 1, z3.If(phase == SENDING, widx, L(0)))))
        c.set_next(onbus, z3.And(z3.Not(s_start), z3.If(move, loads, B(onbus))))
        c.set_next(seq, z3.If(B(I["i_ep_reset"]), bvc(0, 5), z3.If(adv, seq + 1, seq)))
        c.set_next(nrdy_out, z3.Or(s_nrdy, z3.And(B(nrdy_out), z3.Not(z3.And(s_erdy, B(I["i_done"]))),
                                                  z3.Not(z3.Or(s_start, s_zlp)))))

        # ---------------------------------------------------------------- refinement map
        fsm = ts.fsm("fsm_state")
        anon = [v for k, v in ts.state.items() if str(v).startswith("$signal") and z3.is_bv(v)]
        assert len(anon) == 2, [str(v) for v in anon]
        toggle = B(ts.sig("ping_pong_toggle"))
        ended0, ended1 = B(ts.sig("stream_ended_in_buffer0")), B(ts.sig("stream_ended_in_buffer1"))
        w_fill = z3.If(toggle, anon[1], anon[0]); r_fill = z3.If(toggle, anon[0], anon[1])
        w_ended = z3.If(toggle, ended1, ended0); r_ended = z3.If(toggle, ended0, ended1)
        on_last = z3.And(B(onbus), is_last_word)

        c.inv("ghost_ranges", z3.And(z3.ULE(head, 2), z3.ULE(phase, 2), z3.ULE(fill, M), z3.ULE(hlen, M),
                                     z3.Implies(head == EMPTY, phase == IDLE),
                                     (head == DATA) == (hlen != 0),
                                     z3.Implies(phase == SENDING, head == DATA),
                                     z3.Implies(phase == AWAIT, head != EMPTY),
                                     z3.Implies(phase != SENDING, z3.And(z3.Not(B(onbus)), widx == 0)),
                                     z3.Implies(phase == SENDING, z3.And(z3.ULE((widx << 2), hlen + 3),
                                                                         B(onbus) == (widx != 0))),
                                     z3.Implies(phase != IDLE, z3.Not(B(nrdy_out)))))
        c.inv("tail", z3.And(zx(w_fill, LW) == fill, w_ended == B(tended),
                             B(tcomp) == z3.Or(B(tended), z3.UGT(fill + 4, L(M))),
                             z3.Implies(z3.Not(B(tended)), fill & 3 == 0),
                             z3.Implies(B(tended), fill != 0)))
        c.inv("head", z3.And(zx(r_fill, LW) == hlen, z3.Implies(head == DATA, r_ended == B(hended))))
        c.inv("state_wait_for_data", fsm.is_("WAIT_FOR_DATA") == (head == EMPTY))
        c.inv("state_request_in_token", fsm.is_("REQUEST_IN_TOKEN") == z3.And(head != EMPTY, phase == IDLE, B(nrdy_out)))
        c.inv("state_wait_to_send", fsm.is_("WAIT_TO_SEND") == z3.And(head != EMPTY, phase == IDLE, z3.Not(B(nrdy_out))))
        c.inv("state_send_packet", fsm.is_("SEND_PACKET") == z3.And(phase == SENDING, z3.Not(on_last)))
        c.inv("state_wait_for_ack", fsm.is_("WAIT_FOR_ACK") == z3.Or(phase == AWAIT, z3.And(phase == SENDING, on_last)))
        c.inv("registers", z3.And(B(ts.sig("erdy_required")) == B(nrdy_out),
                                  ts.sig("sequence_number") == seq,
                                  z3.Implies(phase == AWAIT, B(ts.sig("last_packet_was_zlp")) == (head == ZLP)),
                                  z3.Implies(phase == SENDING, z3.Not(B(ts.sig("last_packet_was_zlp")))),
                                  z3.Implies(z3.Or(z3.Not(fsm.is_("WAIT_FOR_ACK")), phase == AWAIT),
                                             zx(ts.sig("send_position"), LW) == widx)))

        def both(name, expr, clause):
            """A fact about registered outputs: part of the invariant and an ensure."""
            c.inv("out_" + name, expr)
            c.ensure(name, expr, clause=clause)

        rem = z3.Extract(1, 0, hlen)
        mask = z3.If(is_last_word, z3.If(rem == 0, bvc(15, 4), z3.If(rem == 1, bvc(1, 4), z3.If(rem == 2, bvc(3, 4), bvc(7, 4)))),
                     bvc(15, 4))
        both("tx_framing", z3.And((O["o_tx_valid"] != 0) == B(onbus),
                                  z3.Implies(B(onbus), z3.And(B(O["o_tx_first"]) == (widx == 1),
                                                              B(O["o_tx_last"]) == is_last_word,
                                                              O["o_tx_valid"] == mask))),
             clause="answers an IN request with a data packet: words are framed first..last with the byte mask of the packet length")

        # ---------------------------------------------------------------- ensures (outputs == spec outputs)
        c.ensure("ready_iff_room", B(O["o_ready"]) == z3.Not(B(tcomp)),
                 clause="for any input stream: data is accepted exactly while the packet being filled is incomplete")
        c.ensure("nrdy_iff_request_without_data", B(O["o_nrdy"]) == s_nrdy,
                 clause="answers an IN request ... NRDY otherwise (and only then)")
        c.ensure("zlp_iff_due", B(O["o_tx_zlp"]) == s_zlp,
                 clause="short-packet/ZLP transfer ends: a ZLP answers the IN request after a max-size packet that ended a transfer; repeated on retry")
        c.ensure("data_word_follows_request", z3.Implies(z3.And(phase == SENDING, z3.Not(B(onbus))), c.nx(O["o_tx_valid"]) != 0),
                 clause="answers an IN request with a data packet when it holds data")
        c.ensure("erdy_iff_data_after_nrdy", B(O["o_erdy"]) == s_erdy,
                 clause="notifies the host with ERDY once data becomes available after an NRDY")
        hdr_seq = z3.If(z3.And(req_ack, head_n == ZLP), seq + 1, seq)
        c.ensure("header_fields",
                 z3.Implies(z3.Or(B(onbus), s_zlp),
                            z3.And(O["o_tx_seq"] == hdr_seq, zx(O["o_tx_ep"], 8) == N, O["o_tx_dir"] == 1,
                                   z3.Implies(B(onbus), zx(O["o_tx_length"], 16) == zx(hlen, 16)))),
                 clause="numbers packets with consecutive sequence numbers that advance only on the host's ACK; resends the same packet (same number, same length) on retry")
        c.ensure("handshake_endpoint_number", z3.Implies(z3.Or(B(O["o_nrdy"]), B(O["o_erdy"])), zx(O["o_hs_ep"], 8) == N),
                 clause="NRDY/ERDY name this endpoint")
        c.ensure("tx_holds_until_ready",
                 z3.Implies(z3.And(B(onbus), z3.Not(B(I["i_tx_ready"]))),
                            z3.And(c.nx(O["o_tx_valid"]) == O["o_tx_valid"], c.nx(O["o_tx_payload"]) == O["o_tx_payload"],
                                   c.nx(O["o_tx_first"]) == O["o_tx_first"], c.nx(O["o_tx_last"]) == O["o_tx_last"])),
                 clause="delivers the stream exactly once: a word stays on the tx stream until the transmitter takes it")

        # ---------------------------------------------------------------- payload: exactly once, in order (witness word)
        # k = index (in the order of acceptance) of one arbitrary input word, v = its payload.  Packets are acknowledged in
        # order and `base` counts the words of all acknowledged packets, so the word on the tx stream has index base+widx-1:
        # if that is k, its payload must be v.  Holds for first transmissions and retries alike.
        K = 16
        k = c.rigid("k", K)
        n_in, base, v = c.ghost("n_in", K), c.ghost("base", K), c.ghost("v", 32)
        words = lambda nbytes_: zx((nbytes_ + 3) >> 2, K)
        hw, tw = words(hlen), words(fill)
        c.set_next(n_in, z3.If(accept, n_in + 1, n_in))
        c.set_next(v, z3.If(z3.And(accept, n_in == k), I["i_payload"], v))
        c.set_next(base, z3.If(z3.And(adv, head == DATA), base + hw, base))
        mems = {}
        for path in ("transmit_buffer_0", "transmit_buffer_1"):
            arr, cell = ts.mem(path)
            memidx = [idx for idx in ts.mems.values() if ts.state[('mem', idx)].eq(arr)][0]
            rps = [val for key, val in ts.state.items() if key[0] == 'rp' and ts.nl.cells[key[1]].memory == memidx]
            assert len(rps) == 1
            mems[path] = (arr, rps[0])
        (m0, rp0), (m1, rp1) = mems["transmit_buffer_0"], mems["transmit_buffer_1"]
        AWm = m0.sort().domain().size()
        sel = lambda arr, idx: z3.Select(arr, z3.Extract(AWm - 1, 0, idx))
        off_h = k - base                      # position of the witness inside the head packet, if 0 <= off_h < hw
        off_t = k - base - hw                 # ... inside the tail packet, if 0 <= off_t < tw
        in_head, in_tail = z3.ULT(off_h, hw), z3.ULT(off_t, tw)
        rd_mem = lambda idx: z3.If(toggle, sel(m0, idx), sel(m1, idx))
        wr_mem = lambda idx: z3.If(toggle, sel(m1, idx), sel(m0, idx))
        rd_rp = z3.If(toggle, rp0, rp1)
        c.inv("words_accounted", n_in == base + hw + tw)
        c.inv("witness_in_head_buffer", z3.Implies(in_head, rd_mem(off_h) == v))
        c.inv("witness_in_tail_buffer", z3.Implies(in_tail, wr_mem(off_t) == v))
        c.inv("witness_in_read_register",
              z3.Implies(z3.And(fsm.is_("SEND_PACKET"), in_head, off_h == zx(widx, K)), rd_rp == v))
        both("payload_is_the_accepted_word",
             z3.Implies(z3.And(B(onbus), in_head, off_h + 1 == zx(widx, K)), O["o_tx_payload"] == v),
             clause="delivers the stream exactly once in order: the i-th word handed to the transmitter (over all "
                    "acknowledged packets, retries included) is the i-th word accepted from the input stream")
        c.cover("witness_word_on_bus", z3.And(B(onbus), in_head, off_h + 1 == zx(widx, K), k == 2))

        # ---------------------------------------------------------------- vacuity
        c.cover("nrdy", B(O["o_nrdy"]))
        c.cover("nrdy_on_ack", z3.And(B(O["o_nrdy"]), adv))
        c.cover("erdy", B(O["o_erdy"]))
        shallow = M <= 32            # a ZLP needs a full-size packet first: M/4 input words and as many output words
        c.cover("zlp_after_full_packet", z3.And(B(O["o_tx_zlp"]), z3.Not(rty)), reach=shallow)
        c.cover("zlp_in_ack_cycle", z3.And(B(O["o_tx_zlp"]), req_ack), reach=shallow)
        c.cover("zlp_retry", z3.And(B(O["o_tx_zlp"]), rty), reach=shallow)
        c.cover("retry_data", z3.And(rty, head == DATA))
        c.cover("short_packet_last_word", z3.And(B(onbus), is_last_word, rem == 2))
        c.cover("second_packet", z3.And(B(onbus), seq == 1))
        c.cover("both_buffers_full", z3.And(B(tcomp), head == DATA))
        c.cover("stalled_last_word", z3.And(B(onbus), is_last_word, z3.Not(B(I["i_tx_ready"]))))
        c.cover_depth = 30
        c.timeout_s = 240
    return contract


def contracts(tier):
    yield ("SuperSpeedStreamInEndpoint", "mps16_ep1", make(16, 1))
    if tier == "thorough":
        yield ("SuperSpeedStreamInEndpoint", "mps1024_ep1", make(1024, 1))
        yield ("SuperSpeedStreamInEndpoint", "mps8_ep3", make(8, 3))
        yield ("SuperSpeedStreamInEndpoint", "mps512_ep15", make(512, 15))
