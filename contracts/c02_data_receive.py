"""C02 — USB2 data packets are accepted iff their CRC16 is valid, payload intact (USBDataPacketReceiver).

Unit: USBDataPacketReceiver(standalone=True): the real USBDataPacketCRC and USBInterpacketTimer are instantiated inside,
so the proof covers receiver + CRC unit + timer as one netlist.  `call` obligations on USBDevice check that the production
wiring feeds the shared CRC unit with the UTMI receive bytes exactly as the standalone wiring does.
"""
import z3
from hwv.contract import B, bvc, bits, bv1
from luna.gateware.usb.usb2.packet import USBDataPacketReceiver
from luna.gateware.interface.utmi import UTMIInterface
from . import spec
from .common import UTMIRx


def receiver(c):
    utmi = UTMIInterface()
    d = USBDataPacketReceiver(utmi=utmi, standalone=True)
    ts = c.unit(d, {"rx_data": utmi.rx_data, "rx_active": utmi.rx_active, "rx_valid": utmi.rx_valid,
                    "stream_next": d.stream.next, "stream_payload": d.stream.payload, "stream_valid": d.stream.valid,
                    "packet_complete": d.packet_complete, "crc_mismatch": d.crc_mismatch, "packet_id": d.packet_id,
                    "ready_for_response": d.ready_for_response, "tx_allowed": d.timer.tx_allowed,
                    "active_pid": d.active_pid})
    I, O = ts.inputs, ts.outputs
    rx = UTMIRx(c, I["rx_active"], I["rx_valid"], I["rx_data"], nbytes=1, cntw=3)     # n counts the PID too, saturates at 7
    b0 = rx.b[0]
    inpkt = rx.prev_active == 1
    T = spec.CRC16_USB2_TAPS
    # ---- ghost: spec CRC16 over the bytes after the PID, and the CRC as it was one / two bytes ago; last two bytes
    g = c.ghost("crc", 16, init=0xFFFF)
    g1 = c.ghost("crc_1_ago", 16, init=0xFFFF)
    g2 = c.ghost("crc_2_ago", 16, init=0xFFFF)
    p1 = c.ghost("last_byte", 8, init=0)
    p0 = c.ghost("byte_before_last", 8, init=0)
    body = z3.And(rx.byte_now, rx.n != 0)                 # a byte after the PID arrives now
    c.set_next(g, z3.If(body, spec.crc_step(g, I["rx_data"], T), z3.If(z3.Or(z3.Not(rx.active), rx.n == 0), bvc(0xFFFF, 16), g)))
    c.set_next(g1, z3.If(body, g, g1))
    c.set_next(g2, z3.If(body, g1, g2))
    c.set_next(p1, z3.If(body, I["rx_data"], p1))
    c.set_next(p0, z3.If(body, p1, p0))
    # ---- ghost: waiting for the inter-packet gap after a completed packet
    pid4 = bits(b0, 3, 0)
    datapid = z3.And(spec.pid_valid(b0), z3.Or(*[pid4 == p for p in (spec.PID_DATA0, spec.PID_DATA1, spec.PID_DATA2, spec.PID_MDATA)]))
    match = spec.crc_field(g2) == z3.Concat(p1, p0)        # CRC16 over the payload equals the trailing two bytes (low byte first)
    ended = z3.And(rx.ends_now, z3.UGE(rx.n, 3), datapid)  # a data packet with at least two bytes after its PID ends now
    complete_ev = z3.And(ended, match)
    waiting = c.ghost("waiting", 1, init=0)
    c.set_next(waiting, z3.If(complete_ev, bvc(1, 1), z3.If(O["tx_allowed"] == 1, bvc(0, 1), waiting)))
    c.require("no_packet_during_response_gap", z3.Implies(waiting == 1, z3.Not(rx.active)),
              why="the host does not start a packet inside the inter-packet gap that follows a data packet it just sent "
                  "(USB 2.0 §7.1.18: it must wait for the device's handshake or the bus timeout)")
    fsm = ts.fsm("fsm_state")
    c.inv("fsm_legal", fsm.legal())
    c.inv("idle", fsm.is_("IDLE") == z3.And(z3.Not(inpkt), waiting == 0))
    c.inv("delay", fsm.is_("INTERPACKET_DELAY") == (waiting == 1))
    c.inv("waiting_outside_packet", z3.Implies(waiting == 1, z3.Not(inpkt)))
    c.inv("read_pid", fsm.is_("READ_PID") == z3.And(inpkt, rx.n == 0))
    c.inv("first", fsm.is_("RECEIVE_FIRST_BYTE") == z3.And(inpkt, rx.n == 1, datapid))
    c.inv("second", fsm.is_("RECEIVE_SECOND_BYTE") == z3.And(inpkt, rx.n == 2, datapid))
    c.inv("emit", fsm.is_("RECEIVE_AND_EMIT") == z3.And(inpkt, z3.UGE(rx.n, 3), datapid))
    c.inv("pid_latched", z3.Implies(z3.And(inpkt, z3.UGE(rx.n, 1), datapid), O["active_pid"] == pid4))
    crc_reg = ts.sig("crc.crc")
    c.inv("crc_unit_tracks_spec", z3.Implies(z3.And(inpkt, z3.UGE(rx.n, 1)), crc_reg == g))
    pipe = ts.sig("data_pipeline")
    c.inv("pipeline_1", z3.Implies(z3.And(inpkt, z3.UGE(rx.n, 2), datapid), bits(pipe, 15, 8) == p1))
    c.inv("pipeline_0", z3.Implies(z3.And(inpkt, z3.UGE(rx.n, 3), datapid), bits(pipe, 7, 0) == p0))
    c.inv("byte_crc", z3.Implies(z3.And(inpkt, z3.UGE(rx.n, 2), datapid), ts.sig("last_byte_crc") == spec.crc_field(g1)))
    c.inv("word_crc", z3.Implies(z3.And(inpkt, z3.UGE(rx.n, 3), datapid), ts.sig("last_word_crc") == spec.crc_field(g2)))
    c.inv("timer_counts_gap", z3.Implies(waiting == 1, z3.ULE(ts.sig("timer.counter"), 10)))
    n = c.nx
    # ---- ensures, from the statement
    emit_now = z3.And(body, z3.UGE(rx.n, 3), datapid)
    c.ensure("stream_is_payload_delayed_by_two", (O["stream_next"] == 1) == emit_now,
             clause="the receiver streams exactly the bytes between the PID and the two trailing CRC bytes: one byte is emitted for "
                    "each byte that arrives once two later bytes exist (so the final two are never emitted), only for DATA PIDs")
    c.ensure("stream_byte_is_byte_two_back", z3.Implies(emit_now, O["stream_payload"] == p0),
             clause="in order: the byte emitted is the one received two bytes earlier")
    c.ensure("complete_iff_data_pid_and_crc_matches", (n(O["packet_complete"]) == 1) == complete_ev,
             clause="completion iff the PID is a valid DATA0/1/2/MDATA PID and the CRC16 over the payload equals the trailing CRC")
    c.ensure("packet_id_reported", z3.Implies(complete_ev, n(O["packet_id"]) == pid4), clause="the PID of the completed packet is reported")
    c.ensure("mismatch_iff_two_or_more_bytes_and_bad_crc", (n(O["crc_mismatch"]) == 1) == z3.And(ended, z3.Not(match)),
             clause="a data packet of at least two bytes after its PID whose CRC does not match raises the mismatch strobe instead")
    c.ensure("never_both", z3.Not(z3.And(O["packet_complete"] == 1, O["crc_mismatch"] == 1)), clause="no packet ever raises both")
    c.inv("strobes_exclusive", z3.Not(z3.And(O["packet_complete"] == 1, O["crc_mismatch"] == 1)))
    c.ensure("ready_for_response_only_after_completed_packet", (O["ready_for_response"] == 1) == z3.And(waiting == 1, O["tx_allowed"] == 1),
             clause="'ready for response' follows only a completed packet, at the inter-packet timer's 'response allowed'")
    c.cover("complete", O["packet_complete"] == 1)
    c.cover("zlp_complete", z3.And(complete_ev, rx.n == 3))
    c.cover("mismatch", O["crc_mismatch"] == 1)
    c.cover("ready", O["ready_for_response"] == 1)
    c.cover("stream_byte", O["stream_next"] == 1)
    c.cover("short_packet_ignored", z3.And(rx.ends_now, rx.n == 2, datapid))
    c.cover_depth = 24


def device_wiring(c):
    """call obligation: in USBDevice the shared CRC unit sees the UTMI receive bytes, as the standalone receiver wires it."""
    from luna.gateware.usb.usb2.device import USBDevice
    utmi = UTMIInterface()
    dev = USBDevice(bus=utmi, handle_clocking=False)
    dev.add_standard_control_endpoint_placeholder = None
    ts = c.unit(dev, {"rx_data": utmi.rx_data, "rx_active": utmi.rx_active, "rx_valid": utmi.rx_valid})
    I = ts.inputs
    from luna.gateware.usb.usb2.packet import USBDataPacketCRC
    crc = ts.instance(USBDataPacketCRC)        # the real CRC unit instance, whatever USBDevice.elaborate calls the submodule
    c.comb("crc_unit_fed_with_utmi_rx_data", ts.of(crc.rx_data), I["rx_data"], clause="USBDevice wires data_crc.rx_data to utmi.rx_data")
    c.comb("crc_unit_fed_with_utmi_rx_valid", ts.of(crc.rx_valid), I["rx_valid"], clause="USBDevice wires data_crc.rx_valid to utmi.rx_valid")


def contracts(tier):
    yield ("USBDataPacketReceiver", "standalone", receiver)
    yield ("USBDevice", "crc_wiring", device_wiring)
    # device with endpoints: every user of the shared CRC unit (transmitter, receiver, endpoints) sees its output and can reseed
    # it; the receiver's outputs reach every endpoint; the receiver's response timer is the device's shared timer (C05)
    from .w1_usb2_glue import device_wiring as glue
    yield ("USBDevice", "wiring_utmi", glue("utmi", ("crc", "rx")))
    if tier != "quick":
        yield ("USBDevice", "wiring_ulpi", glue("ulpi", ("crc", "rx")))
