"""Spec-side functions shared by the contracts: written from the USB 2.0 / USB 3.2 / ULPI 1.1 specifications and from the
property statements, never from the code under verification."""
import z3

# ---------------------------------------------------------------- USB2 PIDs (USB 2.0 table 8-1), 4-bit values
PID_OUT, PID_IN, PID_SOF, PID_SETUP = 0b0001, 0b1001, 0b0101, 0b1101
PID_DATA0, PID_DATA1, PID_DATA2, PID_MDATA = 0b0011, 0b1011, 0b0111, 0b1111
PID_ACK, PID_NAK, PID_STALL, PID_NYET = 0b0010, 0b1010, 0b1110, 0b0110
PID_PING = 0b0100


def pid_byte(pid):
    """A PID with its check nibble: high nibble is the one's complement of the low nibble."""
    return ((~pid & 0xF) << 4) | pid


def pid_valid(b):
    """b: 8-bit term.  The check nibble is the complement of the PID nibble."""
    return z3.Extract(3, 0, b) == ~z3.Extract(7, 4, b)


# ---------------------------------------------------------------- bit-serial CRCs (spec definitions)
def crc_serial(state_bits, data_bits, poly_taps, width):
    """Generic bit-serial CRC (USB 2.0 §8.3.5): for each data bit (in transmission order), XOR it with the MSB of the
    shift register, shift left, and XOR in the polynomial if that result was 1.
    state_bits: list of 1-bit terms, index = register bit (width-1 = MSB);  data_bits: list in transmission order."""
    st = list(state_bits)
    for d in data_bits:
        fb = st[width - 1] ^ d
        new = [None] * width
        for i in range(width):
            prev = st[i - 1] if i > 0 else z3.BitVecVal(0, 1)
            new[i] = (prev ^ fb) if (poly_taps >> i) & 1 else prev
        st = new
    return st


def bitlist(e):
    return [z3.Extract(i, i, e) for i in range(e.size())]


def frombits(bl):
    """list LSB-first -> BV"""
    return z3.Concat(*reversed(bl)) if len(bl) > 1 else bl[0]


def usb2_crc5(data11):
    """USB 2.0 token CRC5: G(x)=x^5+x^2+1, register seeded with all ones, data sent LSB first, result inverted and sent
    MSB first.  data11: 11-bit term (addr[6:0] | endp<<7, or frame number).  Returns the 5-bit field as it appears in
    token bits [15:11] when the token's 16 bits are received LSB-first (field bit 0 = first CRC bit on the wire =
    inverted MSB of the register)."""
    st = [z3.BitVecVal(1, 1)] * 5
    st = crc_serial(st, bitlist(data11), 0b00101, 5)
    inv = [~b for b in st]
    # wire order: MSB of the register first; the first bit on the wire lands in the lowest bit of the received field
    return frombits(list(reversed(inv)))


def usb2_crc16_step(crc16, byte):
    """One byte (LSB first) through the USB data CRC16 register, G(x)=x^16+x^15+x^2+1, *non-reflected* register."""
    st = crc_serial(bitlist(crc16), bitlist(byte), 0x8005, 16)
    return frombits(st)


def usb2_crc16_field(crc16):
    """The 16-bit field as transmitted: register inverted, MSB first on the wire; as two bytes received LSB-first, wire bit
    k is bit k of the 16-bit little-endian field."""
    inv = [~b for b in bitlist(crc16)]
    return frombits(list(reversed(inv)))


# ---------------------------------------------------------------- generic "USB style" CRC (USB 2.0 §8.3.5, USB 3.2 §7.2.1.1.2 /
# §7.2.1.2.3 / §7.2.2.1.3): shift register seeded with all ones, data bits enter LSB first, the remainder is inverted and
# sent most-significant register bit first (so the received little-endian field is the bit-reversed, inverted register).
CRC5_TAPS = 0b00101            # x^5 + x^2 + 1
CRC16_USB2_TAPS = 0x8005       # x^16 + x^15 + x^2 + 1
CRC16_USB3_TAPS = 0x100B       # x^16 + x^12 + x^3 + x + 1
CRC32_TAPS = 0x04C11DB7        # x^32 + x^26 + x^23 + x^22 + x^16 + x^12 + x^11 + x^10 + x^8 + x^7 + x^5 + x^4 + x^2 + x + 1


def crc_step(reg, data, taps, nbits=None):
    """Feed data bits [0..nbits) (LSB first) into the register `reg` (a BV of the CRC's width)."""
    w = reg.size()
    bl = bitlist(data)[: (nbits if nbits is not None else data.size())]
    return frombits(crc_serial(bitlist(reg), bl, taps, w))


def crc_field(reg):
    """The check field as it appears in a little-endian word: inverted register, bit-reversed."""
    return frombits(list(reversed([~b for b in bitlist(reg)])))


def crc_of_bytes(data_bytes, taps, width):
    """Concrete helper: CRC field of a byte string (python ints), for validating the spec on published vectors."""
    reg = z3.BitVecVal((1 << width) - 1, width)
    for b in data_bytes:
        reg = z3.simplify(crc_step(reg, z3.BitVecVal(b, 8), taps))
    return z3.simplify(crc_field(reg)).as_long()
