"""C41 — The LTSSM reaches U0 only through training and honours resets and timeouts (LTSSMController, domain `ss`).

Ghost state is defined from the controller's ports only (inputs, and the request outputs it drives):

  reset            = in_usb_reset (the docstring: "asserted whenever a USB reset is detected; including a power-on
                     reset ... or LFPS warm reset signaling").  `power_on_reset` is a port that elaborate() never reads.
  p_lfps/p_tseq/p_ts1/p_hot  previous-cycle values of send_lfps_polling / send_tseq_burst / send_ts1_burst /
                     request_hot_reset; a rising edge is the *entry* to polling (Polling.LFPS, Polling.RxEQ,
                     Polling.Active), recovery (Recovery.Active) or hot reset (Hot Reset.Active).
  partner          since the last reset cycle: perform_rx_detection ∧ link_partner_detected happened
  lfps_done        since the last reset: send_lfps_polling ∧ (lfps_polling_detected ∨ loosened ∧ ts1_detected) happened
  ts1_done         since the last reset: send_ts1_burst ∧ (ts1/ts2/inverted ts1 detected) happened
  ts2_rx           a TS2 was detected since the last entry to Polling.RxEQ/Polling.Active/Recovery.Active/Hot Reset
  ts2_event        send_ts2_burst ∧ ts_burst_complete ∧ ts2_rx   ("the TS2 exchange completes now")
  ts_done          since the last reset: a ts2_event happened after ts1_done ("completed the TS1/TS2 exchange")
  ts2_done         since the last reset and the last entry to polling/recovery/hot reset: a ts2_event happened
  idle_done        since the last reset and the last such entry: perform_idle_handshake ∧ idle_handshake_complete
  partner_noscr    no_scrambling_requested was seen since the last entry to Polling.RxEQ/Polling.Active/Recovery.Active
  our_noscr        disable_scrambling as sampled when that training was entered ("our side requested otherwise")
  age              number of directly preceding cycles the FSM has been in its present state (the one ghost that looks at
                   the FSM state: clause 3 of the statement is *about* substates)

Ensures (statement clause -> name):
  "link reports ready only after ..."                       -> ready_only_after_training  (all five flags)
  "a warm or power-on reset removes link-ready within one cycle" -> reset_removes_link_ready
  "keeps the link out of U0 while it lasts"                 -> reset_keeps_out_of_u0, link_ready_is_u0, u0_entered_only_with_entering_u0
  "each ... substate with a defined timeout is left no later than that timeout" -> timeout_<state>, leaves_<state>
  "scrambling is enabled in U0 unless either side requested otherwise"  -> scrambling_in_u0 (iff)

Timeouts are taken from the statement/documentation (12 ms, 2 ms, 360 ms), converted with exact rational arithmetic.
Everything is proved by 1-induction; nothing is bounded.  Not covered: liveness (that
training ever succeeds); `tx_electrical_idle`/`engage_terminations` have no clause in the statement.
"""
import math
from fractions import Fraction
import z3
from hwv.contract import B, zx, bvc
from luna.gateware.usb.usb3.link.ltssm import LTSSMController

LEVEL = "proof"
EXPLANATION = ("LTSSMController at scaled and real ss clock frequencies, loosened and strict: link_ready implies the "
               "training history flags (ghosts over the ports), reset priority, per-substate timeouts, scrambling rule; "
               "1-induction, invariant = state=>flag table + register/ghost relations.")
ASSUMPTIONS = ["reset := in_usb_reset (power_on_reset is an unused port of LTSSMController)",
               "timeout of a substate is counted from the first cycle in the substate; the transition is decided in the "
               "cycle whose elapsed count equals the timeout"]
BOUNDED = []

MS = Fraction(1, 1000)
TIMEOUTS = {            # substate -> documented timeout
    "Rx.Detect.Quiet": 12 * MS, "Polling.LFPS": 360 * MS, "Polling.Active": 12 * MS, "Polling.Configuration": 12 * MS,
    "Polling.Idle": 2 * MS, "Hot Reset.Active": 12 * MS, "Hot Reset.Exit": 2 * MS, "Recovery.Active": 12 * MS,
    "Recovery.Configuration": 12 * MS, "Recovery.Idle": 2 * MS, "SS.Inactive.Quiet": 12 * MS,
}
PORTS_IN = ["in_usb_reset", "trigger_link_recovery", "phy_ready", "disable_scrambling", "link_partner_detected",
            "no_link_partner_detected", "lfps_polling_detected", "lfps_cycles_sent", "tseq_detected", "ts1_detected",
            "inverted_ts1_detected", "ts2_detected", "hot_reset_requested", "loopback_requested",
            "no_scrambling_requested", "ts_burst_complete", "idle_handshake_complete", "enable_compliance_scrambling",
            "power_on_reset"]
PORTS_OUT = ["link_ready", "entering_u0", "tx_electrical_idle", "engage_terminations", "invert_rx_polarity",
             "train_equalizer", "perform_rx_detection", "send_lfps_polling", "send_tseq_burst", "send_ts1_burst",
             "send_ts2_burst", "request_hot_reset", "request_no_scrambling", "enable_scrambling",
             "perform_idle_handshake", "act_as_loopback", "emit_compliance_pattern"]


def slug(s):
    return s.replace(".", "_").replace(" ", "_")


def make(freq, loosen, reach):
    def contract(c):
        d = LTSSMController(ss_clock_frequency=freq, loosen_requirements=loosen)
        ports = {"i_" + n: getattr(d, n) for n in PORTS_IN}
        ports.update({"o_" + n: getattr(d, n) for n in PORTS_OUT})
        ts = c.unit(d, ports)
        I = {k[2:]: B(v) if v.size() == 1 else v for k, v in ts.inputs.items() if k.startswith("i_")}
        O = {k[2:]: B(v) for k, v in ts.outputs.items()}
        fsm = ts.fsm("fsm_state")
        nxt = {str(v): e for v, e in ts.next_pairs()}
        state, state_next = fsm.expr, nxt[str(fsm.expr)]
        reset = I["in_usb_reset"]

        def flag(name, nxt_fn):
            g = c.ghost(name, 1)
            c.set_next(g, nxt_fn(B(g)))
            return B(g)

        # ---- entries to polling / recovery / hot reset, seen on the request outputs
        p_lfps = flag("p_lfps", lambda g: O["send_lfps_polling"])
        p_tseq = flag("p_tseq", lambda g: O["send_tseq_burst"])
        p_ts1 = flag("p_ts1", lambda g: O["send_ts1_burst"])
        p_hot = flag("p_hot", lambda g: O["request_hot_reset"])
        enter_lfps = z3.And(O["send_lfps_polling"], z3.Not(p_lfps))
        enter_tseq = z3.And(O["send_tseq_burst"], z3.Not(p_tseq))
        enter_ts1 = z3.And(O["send_ts1_burst"], z3.Not(p_ts1))
        enter_hot = z3.And(O["request_hot_reset"], z3.Not(p_hot))
        entry_scr = z3.Or(enter_tseq, enter_ts1)                    # a fresh TS exchange starts (scrambling negotiation)
        entry_rx = z3.Or(entry_scr, enter_hot)                      # ... or a hot-reset TS2 exchange
        entry_train = z3.Or(enter_lfps, entry_rx)                   # "entry to polling, recovery or hot reset"

        # ---- training history
        partner = flag("partner", lambda g: z3.And(z3.Not(reset), z3.Or(g, z3.And(O["perform_rx_detection"],
                                                                                  I["link_partner_detected"]))))
        lfps_ev = z3.And(O["send_lfps_polling"],
                         z3.Or(I["lfps_polling_detected"], I["ts1_detected"]) if loosen else I["lfps_polling_detected"])
        lfps_done = flag("lfps_done", lambda g: z3.And(z3.Not(reset), z3.Or(g, lfps_ev)))
        ts1_ev = z3.And(O["send_ts1_burst"], z3.Or(I["ts1_detected"], I["ts2_detected"], I["inverted_ts1_detected"]))
        ts1_done = flag("ts1_done", lambda g: z3.And(z3.Not(reset), z3.Or(g, ts1_ev)))
        ts2_rx = flag("ts2_rx", lambda g: z3.Or(I["ts2_detected"], z3.And(g, z3.Not(entry_rx))))
        ts2_ev = z3.And(O["send_ts2_burst"], I["ts_burst_complete"], ts2_rx, z3.Not(entry_train))
        ts_done = flag("ts_done", lambda g: z3.And(z3.Not(reset), z3.Or(g, z3.And(ts2_ev, ts1_done))))
        ts2_done = flag("ts2_done", lambda g: z3.And(z3.Not(reset), z3.Not(entry_train), z3.Or(g, ts2_ev)))
        idle_ev = z3.And(O["perform_idle_handshake"], I["idle_handshake_complete"])
        idle_done = flag("idle_done", lambda g: z3.And(z3.Not(reset), z3.Not(entry_train), z3.Or(g, idle_ev)))
        flags = {"partner": partner, "lfps_done": lfps_done, "ts1_done": ts1_done, "ts_done": ts_done,
                 "ts2_done": ts2_done, "idle_done": idle_done}

        recovered = flag("recovered", lambda g: z3.Or(g, z3.And(O["send_ts1_burst"], ts_done)))   # (cover only)

        # ---- scrambling negotiation
        partner_noscr = flag("partner_noscr", lambda g: z3.Or(I["no_scrambling_requested"], z3.And(g, z3.Not(entry_scr))))
        p_disable = flag("p_disable", lambda g: I["disable_scrambling"])
        our_noscr = flag("our_noscr", lambda g: z3.If(entry_scr, p_disable, g))

        # ---- time in the present substate
        T = {s: math.ceil(t * Fraction(freq)) for s, t in TIMEOUTS.items()}
        AW = max(T.values()).bit_length() + 1
        age = c.ghost("age", AW)
        c.set_next(age, z3.If(state_next == state, z3.If(age == (1 << AW) - 1, age, age + 1), bvc(0, AW)))

        # ---- abstraction (registers <-> ghosts)
        reg = lambda n: B(ts.sig(n))
        c.inv("legal_state", fsm.legal())
        # states from the start of a TS exchange onwards (entered only through Polling.RxEQ)
        TRAINED = ("Polling.RxEQ", "Polling.Active", "Polling.Configuration", "Polling.Configuration.Exit", "Polling.Idle",
                   "Hot Reset.Active", "Hot Reset.Exit", "U0", "Recovery.Active", "Recovery.Configuration",
                   "Recovery.Configuration.Exit", "Recovery.Idle", "Loopback")
        # (the registers may be cleared/re-latched more often than the ghosts outside these states: the entry tasks of a
        #  transition that loses against a later transition of the same cycle are still executed, e.g. Polling.LFPS with
        #  TS1 detected in the very cycle of its 360 ms timeout)
        c.inv("ts2_seen_only_if_ts2_rx", z3.Implies(reg("ts2_seen"), z3.And(ts2_rx, z3.Not(entry_rx))))
        c.inv("disable_scrambling_seen_is_partner_noscr",
              z3.Implies(fsm.is_(*TRAINED), reg("disable_scrambling_seen") == z3.And(partner_noscr, z3.Not(entry_scr))))
        c.inv("request_no_scrambling_is_our_noscr",
              z3.Implies(fsm.is_(*TRAINED), reg("request_no_scrambling") == z3.If(entry_scr, p_disable, our_noscr)))
        c.inv("hot_reset_request_only_in_hot_reset_active",
              z3.Implies(reg("request_hot_reset"), fsm.is_("Hot Reset.Active")))
        c.inv("lfps_burst_seen_only_after_lfps",
              z3.Implies(z3.And(fsm.is_("Polling.LFPS"), reg("lfps_burst_seen")), lfps_done))
        cyc = ts.sig("cycles_in_state")
        c.inv("timers", z3.And(*[z3.Implies(fsm.is_(s), z3.And(zx(cyc, AW) == age, z3.ULE(age, t))) for s, t in T.items()]))
        # state => history flag (table found with Houdini over all state x flag candidates, then written out)
        EXIT_IDLE = ("Polling.Configuration.Exit", "Polling.Idle", "Recovery.Configuration.Exit", "Recovery.Idle",
                     "Hot Reset.Exit", "Loopback", "U0")
        AFTER_TS = EXIT_IDLE + ("Hot Reset.Active", "Recovery.Active", "Recovery.Configuration", "SS.Inactive.Quiet",
                                "SS.Inactive.Disconnect.Detect")
        AFTER_TS1 = AFTER_TS + ("Polling.Configuration",)
        AFTER_LFPS = AFTER_TS1 + ("Polling.RxEQ", "Polling.Active")
        AFTER_DETECT = AFTER_LFPS + ("Polling.LFPS", "Compliance", "SS.Disabled.Default")
        HOLDS_IN = {"partner": AFTER_DETECT, "lfps_done": AFTER_LFPS, "ts1_done": AFTER_TS1, "ts_done": AFTER_TS,
                    "ts2_done": EXIT_IDLE, "idle_done": ("U0",)}
        for fn, f in flags.items():
            c.inv(f"{fn}_in_states", z3.Implies(fsm.is_(*HOLDS_IN[fn]), f))
        c.inv("unreachable_state", z3.Not(fsm.is_("SS.Disabled.Error")))

        # ---- ensures
        c.ensure("ready_only_after_training", z3.Implies(O["link_ready"], z3.And(*flags.values())),
                 clause="The link reports ready only after, since the last reset, it has detected a partner, exchanged "
                        "polling LFPS (or TS1 when loosened) and completed the TS1/TS2 exchange, and, since the last entry "
                        "to polling, recovery or hot reset, it has completed the TS2 exchange and the idle handshake")
        c.ensure("reset_removes_link_ready", z3.Implies(reset, z3.Not(c.nx(O["link_ready"]))),
                 clause="a warm or power-on reset removes link-ready within one cycle")
        c.ensure("reset_keeps_out_of_u0", z3.Implies(reset, z3.Not(c.nx(fsm.is_("U0")))),
                 clause="and keeps the link out of U0 while it lasts")
        c.ensure("link_ready_is_u0", O["link_ready"] == fsm.is_("U0"), clause="link-ready <=> U0")
        c.ensure("u0_entered_only_with_entering_u0",
                 z3.Implies(z3.And(z3.Not(fsm.is_("U0")), c.nx(fsm.is_("U0"))), z3.And(O["entering_u0"], idle_ev)),
                 clause="U0 is entered only on a completed idle handshake (entering_u0)")
        for s, t in T.items():
            c.ensure(f"timeout_{slug(s)}", z3.Implies(fsm.is_(s), z3.ULE(age, t)),
                     clause=f"{s} is left no later than its timeout ({float(TIMEOUTS[s] * 1000):g} ms = {t} cycles)")
            c.ensure(f"leaves_{slug(s)}", z3.Implies(z3.And(fsm.is_(s), age == t), z3.Not(c.nx(fsm.is_(s)))),
                     clause=f"{s} is left when its timeout expires")
        c.ensure("scrambling_in_u0",
                 z3.Implies(fsm.is_("U0"), O["enable_scrambling"] == z3.And(z3.Not(our_noscr), z3.Not(partner_noscr))),
                 clause="Scrambling is enabled in U0 unless either side requested otherwise")

        # ---- vacuity
        c.cover("link_ready", O["link_ready"])
        c.cover("reset_in_u0", z3.And(O["link_ready"], reset))
        c.cover("u0_after_recovery", z3.And(O["link_ready"], recovered))
        c.cover("u0_without_scrambling_partner", z3.And(O["link_ready"], partner_noscr, z3.Not(O["enable_scrambling"])))
        c.cover("u0_without_scrambling_ours", z3.And(O["link_ready"], our_noscr, z3.Not(O["enable_scrambling"])))
        c.cover("u0_with_scrambling", z3.And(O["link_ready"], O["enable_scrambling"]))
        c.cover("hot_reset_exit", fsm.is_("Hot Reset.Exit"))
        c.cover("recovery_idle", fsm.is_("Recovery.Idle"))
        c.cover("reset_during_training", z3.And(reset, fsm.is_("Polling.Configuration"), I["ts_burst_complete"], ts2_rx))
        for s, t in T.items():
            c.cover(f"timeout_{slug(s)}", z3.And(fsm.is_(s), age == t), reach=reach and t <= 12)
        c.cover_depth = 40
        c.timeout_s = 240
    return contract


# ===================================================================================== wiring (caller-side obligations)
# USB3LinkLayer.elaborate() creates the LTSSMController and connects it to the physical layer, the training-set transceiver, the idle
# handshake handler and the recovery requests.  Stated on the real link layer (open interfaces; see c46.open_link_layer).
LTSSM_SOURCES = [    # LTSSM input <- (unit, attribute) as the statement's "PHY, LFPS, TS-detector and idle-handshake inputs"
    ("phy_ready", ("phy", "ready")), ("link_partner_detected", ("phy", "link_partner_detected")),
    ("no_link_partner_detected", ("phy", "no_link_partner_detected")), ("lfps_polling_detected", ("phy", "lfps_polling_detected")),
    ("lfps_cycles_sent", ("phy", "lfps_cycles_sent")), ("tseq_detected", ("tsx", "tseq_detected")), ("ts1_detected", ("tsx", "ts1_detected")),
    ("inverted_ts1_detected", ("tsx", "inverted_ts1_detected")), ("ts2_detected", ("tsx", "ts2_detected")),
    ("hot_reset_requested", ("tsx", "hot_reset_requested")), ("loopback_requested", ("tsx", "loopback_requested")),
    ("no_scrambling_requested", ("tsx", "no_scrambling_requested")), ("ts_burst_complete", ("tsx", "burst_complete")),
    ("idle_handshake_complete", ("idle", "idle_handshake_complete")), ("disable_scrambling", ("d", "disable_scrambling")),
    ("enable_compliance_scrambling", ("compliance", "enable_scrambling")),
]
LTSSM_SINKS = [      # (unit, attribute) <- LTSSM output
    (("phy", "perform_rx_detection"), "perform_rx_detection"), (("phy", "tx_electrical_idle"), "tx_electrical_idle"),
    (("phy", "engage_terminations"), "engage_terminations"), (("phy", "invert_rx_polarity"), "invert_rx_polarity"),
    (("phy", "train_equalizer"), "train_equalizer"), (("phy", "enable_scrambling"), "enable_scrambling"),
    (("tsx", "send_tseq_burst"), "send_tseq_burst"), (("tsx", "send_ts1_burst"), "send_ts1_burst"), (("tsx", "send_ts2_burst"), "send_ts2_burst"),
    (("tsx", "request_hot_reset"), "request_hot_reset"), (("tsx", "request_no_scrambling"), "request_no_scrambling"),
    (("idle", "enable"), "perform_idle_handshake"), (("compliance", "enable"), "emit_compliance_pattern"),
    (("d", "trained"), "link_ready"), (("tm", "enable"), "link_ready"), (("hrx", "enable"), "link_ready"), (("ptx", "enable"), "link_ready"),
]


def link_layer_ltssm(freq, connections=True):
    """connections=False: only the instance-parameter obligation (the connections do not depend on the clock parameter)."""
    def contract(c):
        from .c37_header_receive import LinkLayerUnits
        from .c46_ss_in_endpoint import instance_is_contracted_unit, stream_same, path_of
        U = LinkLayerUnits(c, freq)
        of, S, ltssm, phy = U.of, U.S, U.ltssm, U.phy
        unit = lambda key: getattr(U, key[0])
        ref = LTSSMController(ss_clock_frequency=freq)      # the configuration proved below: this clock, loosened (the class default)
        instance_is_contracted_unit(c, U.ts, path_of(U.ts, ltssm), ltssm, ref, PORTS_IN, PORTS_OUT, "ltssm_ref",
                                    clause="Each training, recovery and inactive substate ... is left no later than that timeout: the LTSSM "
                                           "instance of the link layer is LTSSMController(ss_clock_frequency = the link layer's clock, loosened)")
        if not connections:
            c.cosim_cycles = 2
            return
        # one obligation per source / destination unit (each conjunct is one connection)
        for key in dict.fromkeys(src[0] for _, src in LTSSM_SOURCES):
            c.lemma(f"ltssm_inputs_from_{key}_are_that_units_reports",
                    z3.And(*[S(getattr(ltssm, name), getattr(unit(src), src[1])) for name, src in LTSSM_SOURCES if src[0] == key]),
                    clause="All histories of PHY, LFPS, TS-detector and idle-handshake inputs: " +
                           ", ".join(f"{name} = {src[0]}.{src[1]}" for name, src in LTSSM_SOURCES if src[0] == key))
        c.lemma("ltssm_in_usb_reset_is_warm_reset_lfps_or_vbus_absent",
                of(ltssm.in_usb_reset) == (of(phy.lfps_reset_detected) | ~of(phy.vbus_present)),
                clause="a warm or power-on reset: in_usb_reset = reset LFPS detected or VBUS absent")
        c.lemma("ltssm_trigger_link_recovery_is_any_recovery_request",
                of(ltssm.trigger_link_recovery) == (of(U.tm.transition_to_recovery) | of(U.hrx.recovery_required) | of(U.ptx.recovery_required)))
        for key in dict.fromkeys(dst[0] for dst, _ in LTSSM_SINKS):
            c.lemma(f"{key}_sees_the_ltssm_outputs",
                    z3.And(*[S(getattr(unit(dst), dst[1]), getattr(ltssm, name)) for dst, name in LTSSM_SINKS if dst[0] == key]),
                    clause="the link reports ready / scrambling is enabled / training requests: " +
                           ", ".join(f"{dst[0]}.{dst[1]} = {name}" for dst, name in LTSSM_SINKS if dst[0] == key))
        c.lemma("phy_send_lfps_polling_is_ltssm_or_compliance_request",
                of(phy.send_lfps_polling) == (of(ltssm.send_lfps_polling) | of(U.compliance.send_lfps_polling)))
        c.lemma("link_in_reset_is_hot_reset_or_usb_reset", of(U.d.in_reset) == (of(ltssm.request_hot_reset) | of(ltssm.in_usb_reset)))
        c.lemma("training_set_detectors_see_the_raw_receive_stream", stream_same(U.ts, U.tsx.sink, phy.raw_source),
                clause="TS-detector inputs: the detectors look at the physical layer's raw (not descrambled) receive stream")
    return contract


def contracts(tier):
    yield ("USB3LinkLayer", "wiring_ltssm_125MHz", link_layer_ltssm(125e6))
    yield ("LTSSMController", "1kHz_loosened", make(1e3, True, True))
    yield ("LTSSMController", "1kHz_strict", make(1e3, False, False))
    yield ("LTSSMController", "125MHz_loosened", make(125e6, True, False))
    if tier == "thorough":
        yield ("USB3LinkLayer", "wiring_ltssm_instance_250MHz", link_layer_ltssm(250e6, connections=False))
        yield ("LTSSMController", "125MHz_strict", make(125e6, False, False))
        yield ("LTSSMController", "250MHz_loosened", make(250e6, True, False))
        yield ("LTSSMController", "10kHz_loosened", make(1e4, True, False))
        yield ("LTSSMController", "1MHz_loosened", make(1e6, True, False))
