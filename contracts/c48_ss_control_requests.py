"""C48 — SuperSpeed control requests are decoded and answered exactly.

Units: SuperSpeedSetupDecoder (usb3/application/request.py), SuperSpeed GetDescriptorHandler (usb3/application/descriptor.py).

Setup decoder.  Observation ghosts over the data-packet interface (sink words, header setup flag, rx_good / rx_bad):
    in_packet, words (saturating), shape_ok (so far the packet is: word 0 = 4 valid bytes, first, not last, setup flag;
    word 1 = 4 valid bytes, last, not first; nothing else), w0, w1 (the two words).
  Spec: `received` is raised (registered: the cycle after rx_good) iff rx_good concludes a packet with shape_ok and exactly
  two words; then the fields are the eight bytes; otherwise the reported fields do not change.
  Environment (what the data packet receiver guarantees, C40): a packet is a `first` word, further words, then exactly one
  of rx_good / rx_bad (not both, not during a word); no stray words outside a packet, none after `last`; only the final
  word may be partial.

GetDescriptorHandler.  One `start` = the whole descriptor (no continuation at SuperSpeed).  Reference = the collection.
  T = min(wLength, len);  the tx stream carries ceil(T/4) little-endian words, per-byte valid mask on the final word, first
  on word 0, last on the final word; tx_length == T while a word is offered; a request for a descriptor that is not in the
  collection raises stall (in the start cycle) and no data.  wLength == 0 has no data stage and is excluded.
"""
import os
import z3
from hwv.contract import B, bvc, bits, zx
from luna.gateware.usb.usb3.application.request import SuperSpeedSetupDecoder
from luna.gateware.usb.usb3.application.descriptor import GetDescriptorHandler
from usb_protocol.emitters import DeviceDescriptorCollection
from usb_protocol.emitters.descriptors.standard import get_string_descriptor

W = 18
EXPLANATION = (
    "Unbounded inductive proofs of SuperSpeedSetupDecoder (report iff good eight-byte setup-flagged packet, fields, frame) and "
    "of the SuperSpeed GetDescriptorHandler (word stream, valid masks, first/last, tx_length, stall) for enumerated "
    "collections.  On the unchanged tree the decoder obligation parse_second_iff_one_good_word fails: a setup-flagged packet "
    "of 4..7 bytes leaves the FSM in PARSE_SECOND after its verdict (rx_good is ignored there and a partial second word is "
    "ignored), so the next four-byte packet completes a bogus request or the next real SETUP is dropped (witness replayed on "
    "the simulator); fixed by proposed_fixes/C48_setup_decoder_short_packets.diff, with which every obligation passes.")
ASSUMPTIONS = [
    "setup decoder: packets arrive as first-word .. last-word followed by exactly one of rx_good/rx_bad; no stray words; only the final word partial (guaranteed by the data packet receiver, C40)",
    "descriptor handler: value/length stable and no new start while a response is in progress; wLength > 0",
    "descriptor collections are enumerated; the reference is the collection object",
]
BOUNDED = []


def lookup(idx, table, width, default=0):
    items = list(table.items()) if isinstance(table, dict) else list(enumerate(table))
    e = bvc(default, width)
    for i, v in reversed(items):
        e = z3.If(idx == i, bvc(v, width), e)
    return e


def umin(a, b):
    return z3.If(z3.ULE(a, b), a, b)


def reg(ts, name):
    r = [v for v in ts.state.values() if str(v) == ts.prefix + name]
    assert len(r) == 1, (name, [str(v) for v in ts.state.values()])
    return r[0]


# ------------------------------------------------------------------------------------------------ setup decoder
FIELDS = [("recipient", 0, 5), ("type", 5, 2), ("is_in_request", 7, 1), ("request", 8, 8), ("value", 16, 16),
          ("index", 32, 16), ("length", 48, 16)]          # (name, first bit of the 8 setup bytes (little endian), width)


def setup_decoder(c):
    d = SuperSpeedSetupDecoder()
    ports = {"i_valid": d.sink.valid, "i_first": d.sink.first, "i_last": d.sink.last, "i_data": d.sink.data,
             "i_good": d.rx_good, "i_bad": d.rx_bad, "i_setup": d.header_in.setup, "o_received": d.packet.received}
    for n, _, _ in FIELDS:
        ports["o_" + n] = getattr(d.packet, n)
    ts = c.unit(d, ports)
    I, O = ts.inputs, ts.outputs
    word = I["i_valid"] != 0
    full = I["i_valid"] == 0xF
    first, last = I["i_first"] == 1, I["i_last"] == 1
    good, bad, flag = I["i_good"] == 1, I["i_bad"] == 1, I["i_setup"] == 1
    inpkt = c.ghost("in_packet", 1, init=0)
    nw = c.ghost("words", 2, init=0)
    ok = c.ghost("shape_ok", 1, init=0)
    ended = c.ghost("last_seen", 1, init=0)
    w0 = c.ghost("w0", 32, init=0)
    w1 = c.ghost("w1", 32, init=0)
    head = c.ghost("first_word_full_with_setup_flag", 1, init=0)
    inp = inpkt == 1
    start_w = z3.And(word, first)
    more_w = z3.And(word, z3.Not(first), inp)
    end = z3.Or(good, bad)
    one, zero = bvc(1, 1), bvc(0, 1)
    c.set_next(inpkt, z3.If(end, zero, z3.If(start_w, one, inpkt)))
    c.set_next(nw, z3.If(start_w, bvc(1, 2), z3.If(z3.And(more_w, z3.ULT(nw, 3)), nw + 1, nw)))
    c.set_next(ok, z3.If(end, zero, z3.If(start_w, z3.If(z3.And(full, flag, z3.Not(last)), one, zero),
                                          z3.If(more_w, z3.If(z3.And(ok == 1, nw == 1, full, last), one, zero), ok))))
    c.set_next(ended, z3.If(start_w, z3.If(last, one, zero), z3.If(z3.And(more_w, last), one, z3.If(end, zero, ended))))
    c.set_next(w0, z3.If(start_w, I["i_data"], w0))
    c.set_next(head, z3.If(start_w, z3.If(z3.And(full, flag), bvc(1, 1), bvc(0, 1)), head))
    c.set_next(w1, z3.If(z3.And(more_w, nw == 1), I["i_data"], w1))
    # environment: the data packet receiver's framing
    c.require("good_bad_exclusive", z3.Not(z3.And(good, bad)), why="the receiver reports exactly one of good / bad per packet")
    c.require("verdict_after_packet", z3.Implies(end, z3.And(inp, z3.Not(word))), why="good/bad strobes conclude a packet, after its last word")
    c.require("good_only_after_last_word", z3.Implies(good, ended == 1), why="a packet is only reported good when it was received completely")
    c.require("packet_starts_after_previous_verdict", z3.Implies(start_w, z3.Not(inp)), why="a new packet starts only after the previous verdict")
    c.require("no_stray_words", z3.Implies(z3.And(word, z3.Not(first)), z3.And(inp, ended == 0)), why="words belong to a packet and none follows `last`")
    c.require("only_final_word_partial", z3.Implies(z3.And(word, z3.Not(full)), last), why="payload bytes are contiguous: only the final word is partial")

    eight = z3.And(inp, ok == 1, nw == 2)                      # the packet so far is exactly eight bytes with the setup flag
    report = z3.And(good, eight)
    fsm = ts.fsm("fsm_state")
    # internal capture registers = the state variables with a field's name that are not the output register
    def internal(n):
        cands = [v for v in ts.state.values() if str(v).split("$")[0] == n and not v.eq(O["o_" + n])]
        assert len(cands) <= 1, (n, cands)
        # a capture field that is never assigned has no register: it reads as its reset value 0
        return cands[0] if cands else bvc(0, O["o_" + n].size())
    both = z3.Concat(w1, w0)
    cap_lo = z3.And(*[internal(n) == bits(both, lo + w - 1, lo) for n, lo, w in FIELDS if lo < 32])
    cap_hi = z3.And(*[internal(n) == bits(both, lo + w - 1, lo) for n, lo, w in FIELDS if lo >= 32])
    c.inv("fsm_legal", fsm.legal())
    # (a four-byte packet with the setup flag also waits in PARSE_SECOND -- for its verdict, which sends it back)
    c.inv("parse_second_iff_one_good_word", fsm.is_("PARSE_SECOND") == z3.And(inp, head == 1, nw == 1))
    c.inv("wait_for_valid_iff_eight_bytes", fsm.is_("WAIT_FOR_VALID") == eight)
    c.inv("first_word_captured", z3.Implies(fsm.is_("PARSE_SECOND", "WAIT_FOR_VALID"), cap_lo))
    c.inv("second_word_captured", z3.Implies(fsm.is_("WAIT_FOR_VALID"), cap_hi))
    c.inv("ghost_consistency", z3.And(z3.Implies(ok == 1, head == 1), z3.Implies(z3.And(inp, nw == 1, head == 1), (ok == 1) == (ended == 0)),
                                      z3.Implies(ok == 1, z3.And(inp, z3.Or(nw == 1, nw == 2), (ended == 1) == (nw == 2))),
                                      z3.Implies(inp, nw != 0)))

    c.ensure("received_iff_good_eight_byte_setup_packet", (c.nx(O["o_received"]) == 1) == report,
             clause="reports a request iff a good data packet with the setup flag carries exactly eight bytes")
    c.ensure("fields_equal_the_eight_bytes", z3.Implies(report, z3.And(*[
        c.nx(O["o_" + n]) == bits(both, lo + w - 1, lo) for n, lo, w in FIELDS])),
        clause="with fields equal to those bytes (bmRequestType, bRequest, wValue, wIndex, wLength, little endian)")
    c.ensure("fields_unchanged_otherwise", z3.Implies(z3.Not(report), z3.And(*[
        c.nx(O["o_" + n]) == O["o_" + n] for n, _, _ in FIELDS])),
        clause="(frame) the reported request does not change unless a new request is reported")
    c.cover("setup_reported", O["o_received"] == 1)
    c.cover("bad_eight_byte_packet", z3.And(bad, eight))
    c.cover("six_byte_packet_good", z3.And(good, inp, nw == 2, ok == 0, w0 != 0))
    c.cover("four_byte_packet_good", z3.And(good, inp, nw == 1))
    c.cover("twelve_byte_packet_good", z3.And(good, inp, nw == 3))
    c.cover("non_setup_eight_bytes_good", z3.And(good, inp, nw == 2, ok == 0, ended == 1))
    c.cover_depth = 12


# ------------------------------------------------------------------------------------------------ GetDescriptorHandler
def keys_of(coll):
    return {((int(t) << 8) | int(i)): bytes(raw) for t, i, raw in coll}


def word_table(keys, v, wi, lane=None):
    """little-endian 32-bit word number wi of descriptor v, zero padded (from the collection bytes)"""
    e = bvc(0, 32)
    for k, b in reversed(list(keys.items())):
        padded = b + bytes((-len(b)) % 4)
        words = [int.from_bytes(padded[4 * i:4 * i + 4], "little") for i in range(len(padded) // 4)]
        e = z3.If(v == k, lookup(wi, words, 32), e)
    return e


def make_descriptor_handler(coll_fn):
    def contract(c):
        coll = coll_fn()
        keys = keys_of(coll)
        d = GetDescriptorHandler(coll)
        ts = c.unit(d, {"i_value": d.value, "i_length": d.length, "i_start": d.start, "i_ready": d.tx.ready,
                        "o_valid": d.tx.valid, "o_first": d.tx.first, "o_last": d.tx.last, "o_payload": d.tx.payload,
                        "o_tx_length": d.tx_length, "o_stall": d.stall})
        I, O = ts.inputs, ts.outputs
        start, ready = I["i_start"] == 1, I["i_ready"] == 1
        txv = O["o_valid"] != 0
        stall = O["o_stall"] == 1
        busy = c.ghost("busy", 1, init=0)
        age = c.ghost("age", 3, init=0)
        cnt = c.ghost("words_accepted", W, init=0)
        gv = c.ghost("req_value", 16, init=0)
        gl = c.ghost("req_length", W, init=0)
        isbusy = busy == 1
        v_in, l_in = I["i_value"], zx(I["i_length"], W)
        v, l = z3.If(isbusy, gv, v_in), z3.If(isbusy, gl, l_in)
        exists = z3.Or(*[v == k for k in keys])
        LEN = lookup(v, {k: len(b) for k, b in keys.items()}, W)
        T = umin(l, LEN)
        NW = z3.LShR(T + 3, 2)
        final = cnt + 1 == NW
        nb = z3.If(final, T - z3.Concat(z3.Extract(W - 3, 0, cnt), bvc(0, 2)), bvc(4, W))     # bytes in word cnt
        start_accept = z3.And(z3.Not(isbusy), start)
        take = z3.And(isbusy, txv, ready)
        end_now = z3.Or(z3.And(start_accept, stall), z3.And(take, O["o_last"] == 1))
        c.set_next(busy, z3.If(end_now, bvc(0, 1), z3.If(isbusy, bvc(1, 1), z3.If(start, bvc(1, 1), bvc(0, 1)))))
        c.set_next(cnt, z3.If(start_accept, bvc(0, W), z3.If(take, cnt + 1, cnt)))
        c.set_next(age, z3.If(start_accept, bvc(1, 3), z3.If(z3.And(isbusy, z3.Not(txv), z3.ULT(age, 7)), age + 1, age)))
        c.set_next(gv, z3.If(start_accept, v_in, gv))
        c.set_next(gl, z3.If(start_accept, l_in, gl))
        c.require("request_stable_while_busy", z3.Implies(isbusy, z3.And(v_in == gv, l_in == gl)),
                  why="the setup packet's value/length are held during the control transfer")
        c.require("no_start_while_busy", z3.Implies(isbusy, z3.Not(start)), why="one data_requested strobe per data stage")
        c.require("nonzero_wlength", z3.Implies(start_accept, l_in != 0), why="a request with wLength == 0 has no data stage")
        c.inv("latched_request", z3.Implies(isbusy, z3.And(gl != 0, z3.ULT(gl, 1 << 16), exists)))

        # ---- abstraction map: the selected generator runs one word ahead of the registered tx stage
        consumed = cnt + z3.If(txv, bvc(1, W), bvc(0, W))           # words the generator has handed over so far
        gens = sorted({p.rsplit(".", 1)[0] for p in ts.paths if p.endswith(".fsm_state")}, key=lambda n: int(n.split("$")[1]))
        assert len(gens) == len(keys)
        c.inv("tx_empty_only_before_first_word", z3.Implies(z3.And(isbusy, z3.Not(txv)), z3.And(cnt == 0, age == 1)))
        c.inv("tx_empty_when_idle", z3.Implies(z3.Not(isbusy), z3.Not(txv)))
        c.inv("age_bound", z3.Implies(isbusy, z3.And(z3.UGE(age, 1), z3.ULE(age, 2), z3.ULT(cnt, NW))))
        c.inv("tx_stage_holds_word", z3.Implies(z3.And(isbusy, txv), z3.And(
            O["o_valid"] == lookup(nb, {1: 1, 2: 3, 3: 7, 4: 15}, 4), O["o_payload"] == word_table(keys, gv, cnt),
            (O["o_first"] == 1) == (cnt == 0), (O["o_last"] == 1) == final, zx(O["o_tx_length"], W) == T)))
        for (k, b), g in zip(keys.items(), gens):
            fsm = ts.fsm(g + ".fsm_state")
            mine = z3.And(isbusy, gv == k)
            nm = f"gen_{k:04x}_"
            c.inv(nm + "fsm_legal", fsm.legal())
            c.inv(nm + "streaming_iff_words_left", fsm.is_("STREAMING") == z3.And(mine, z3.ULT(consumed, NW)))
            c.inv(nm + "done_only_right_after_final_word", z3.Implies(fsm.is_("DONE"), z3.And(mine, consumed == NW)))
            conj = [zx(reg(ts, g + ".bytes_sent"), W) == z3.Concat(z3.Extract(W - 3, 0, consumed), bvc(0, 2)),
                    zx(reg(ts, g + ".max_length"), W) == gl,
                    [x for kk, x in ts.state.items() if kk[0] == 'rp'][gens.index(g)] == word_table(keys, gv, consumed)]
            if len(b) > 4:
                conj.append(zx(reg(ts, g + ".position_in_stream"), W) == consumed)
            c.inv(nm + "streaming_state", z3.Implies(fsm.is_("STREAMING"), z3.And(*conj)))

        # ---- ensures
        c.ensure("silent_when_not_started", z3.And(z3.Implies(z3.Not(isbusy), z3.Not(txv)), z3.Implies(z3.Not(start), z3.Not(stall))),
                 clause="(frame) no data unless a descriptor read was started; stall only in answer to a start")
        c.ensure("stall_iff_unknown_descriptor", stall == z3.And(start, z3.Not(z3.Or(*[v_in == k for k in keys]))),
                 clause="unknown descriptors are STALLed (exactly those, when started)")
        c.ensure("answered_in_time", z3.Implies(z3.And(isbusy, z3.UGE(age, 2)), txv),
                 clause="GET_DESCRIPTOR answers ... (first word offered two cycles after start, then without gaps)")
        data = z3.And(isbusy, txv)
        c.ensure("valid_mask_exact", z3.Implies(data, O["o_valid"] == lookup(nb, {1: 1, 2: 3, 3: 7, 4: 15}, 4)),
                 clause="answers with the first min(wLength, length) bytes: every word full except the final one, which carries the remaining bytes")
        lanes = [z3.Implies(z3.ULT(bvc(j, W), nb), bits(O["o_payload"], 8 * j + 7, 8 * j) ==
                            _byte(keys, gv, z3.Concat(z3.Extract(W - 3, 0, cnt), bvc(0, 2)) + j)) for j in range(4)]
        c.ensure("data_bytes_are_descriptor_bytes", z3.Implies(data, z3.And(*lanes)),
                 clause="answers with the first min(wLength, length) bytes of the requested descriptor (byte 4*word+lane)")
        c.ensure("first_iff_first_word", z3.Implies(data, (O["o_first"] == 1) == (cnt == 0)), clause="packet framing: first on word 0 only")
        c.ensure("last_iff_final_word", z3.Implies(data, z3.And(z3.ULT(cnt, NW), (O["o_last"] == 1) == final)),
                 clause="exactly ceil(min(wLength, length)/4) words: last on the final word only")
        c.ensure("length_field_matches", z3.Implies(data, zx(O["o_tx_length"], W) == T),
                 clause="and the matching length field (tx_length = min(wLength, descriptor length) while data is offered)")
        c.ensure("word_held_until_ready", z3.Implies(z3.And(data, z3.Not(ready)), z3.And(
            c.nx(O["o_valid"]) == O["o_valid"], c.nx(O["o_payload"]) == O["o_payload"], c.nx(O["o_tx_length"]) == O["o_tx_length"])),
                 clause="all ready patterns: an offered word is held until accepted")
        multiword = any(len(b_) > 4 for b_ in keys.values())     # (a collection of one-word descriptors never gets to word 1)
        if multiword:
            c.cover("descriptor_completes", z3.And(take, O["o_last"] == 1, cnt != 0))
        else:
            c.cover("descriptor_completes", z3.And(take, O["o_last"] == 1))
        c.cover("truncated_by_wlength", z3.And(take, O["o_last"] == 1, z3.ULT(gl, LEN)))
        c.cover("partial_final_word", z3.And(take, O["o_last"] == 1, O["o_valid"] != 15))
        c.cover("stall", stall)
        c.cover("stalled_word", z3.And(data, z3.Not(ready), cnt != 0) if multiword else z3.And(data, z3.Not(ready)))
        c.cover_depth = 14
        c.timeout_s = max(c.timeout_s, 240)
    return contract


def _byte(keys, v, pos):
    e = bvc(0, 8)
    for k, b in reversed(list(keys.items())):
        e = z3.If(v == k, lookup(pos, list(b), 8), e)
    return e


def coll_small():
    ds = DeviceDescriptorCollection()
    with ds.DeviceDescriptor() as d:
        d.bcdUSB = 3.00; d.idVendor = 0x1234; d.idProduct = 0x4567
        d.iManufacturer = "Manu"; d.iProduct = "Prod"; d.iSerialNumber = "0123456"
        d.bNumConfigurations = 1
    with ds.ConfigurationDescriptor() as cfg:
        with cfg.InterfaceDescriptor() as i:
            i.bInterfaceNumber = 0
            with i.EndpointDescriptor(add_default_superspeed=True) as e:
                e.bEndpointAddress = 0x81; e.wMaxPacketSize = 1024
    ds.add_descriptor(get_string_descriptor("nonconsecutive"), index=0xfe)
    ds.add_descriptor(b'\x09\x21\x01\x01\x00\x01\x22\x00\x32')
    return ds


def coll_minimal():
    return DeviceDescriptorCollection()


def contracts(tier):
    yield ("SuperSpeedSetupDecoder", "", setup_decoder)
    yield ("GetDescriptorHandler", "small", make_descriptor_handler(coll_small))
    if tier != "quick":
        from .c09_get_descriptor import coll_big
        yield ("GetDescriptorHandler", "big", make_descriptor_handler(coll_big))
        yield ("GetDescriptorHandler", "minimal", make_descriptor_handler(coll_minimal))
