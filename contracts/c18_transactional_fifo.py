"""C18 — TransactionalizedFIFO behaves as a commit/rollback queue.

Abstract view (ghost-free, a function of the four pointers): positions are measured as cyclic distances from the
committed read pointer `mr` (the oldest entry still held):

    0 <= d_cr <= d_mw <= d_cw <= depth        d_x = (x - mr) mod (depth+1)

    [0, d_cr)      read but not yet finalised (read_discard returns to 0, read_commit frees them)
    [d_cr, d_mw)   committed, unread            (this is what 'empty' talks about)
    [d_mw, d_cw)   written, not yet committed   (write_discard erases them, write_commit publishes them)

Contents are tracked with a symbolic witness slot (index i, value v): v is captured whenever a write lands on slot i;
while slot i holds a live entry the memory word must still be v, and reading slot i returns v.  i is arbitrary, so this
is "no entry is lost, duplicated, reordered or altered" for every slot.
"""
import z3
from hwv.contract import B, bvc, bits, zx
from luna.gateware.memory import TransactionalizedFIFO


def make(depth, width):
    def contract(c):
        d = TransactionalizedFIFO(width=width, depth=depth, name="fifo")
        names = ['read_data', 'read_en', 'read_commit', 'read_discard', 'write_data', 'write_en', 'write_commit',
                 'write_discard', 'space_available', 'empty', 'full']
        ts = c.unit(d, {n: getattr(d, n) for n in names})
        I, O = ts.inputs, ts.outputs
        cw, mw = ts.sig("current_write_pointer"), ts.sig("committed_write_pointer")
        cr, mr = ts.sig("current_read_pointer"), ts.sig("committed_read_pointer")
        mem, memcell = ts.mem("fifo")
        N, D = depth + 1, depth
        W = cw.size() + 2
        z = lambda x: zx(x, W)
        dist = lambda a, b: z3.If(z3.UGE(z(b), z(a)), z(b) - z(a), z(b) + N - z(a))
        d_cr, d_mw, d_cw = dist(mr, cr), dist(mr, mw), dist(mr, cw)
        n = c.nx
        d_cr2, d_mw2, d_cw2 = n(d_cr), n(d_mw), n(d_cw)

        wen, wc, wd = I['write_en'] == 1, I['write_commit'] == 1, I['write_discard'] == 1
        ren, rc, rd = I['read_en'] == 1, I['read_commit'] == 1, I['read_discard'] == 1
        full_spec = d_cw == D                              # no further write fits
        empty_spec = d_cr == d_mw                          # no committed, unread entry remains
        a = z3.If(z3.And(wen, z3.Not(full_spec)), bvc(1, W), bvc(0, W))      # a write is accepted
        r = z3.If(z3.And(ren, z3.Not(empty_spec)), bvc(1, W), bvc(0, W))     # a read is accepted

        # witness slot
        wi = c.rigid("slot", cw.size())
        wv = c.ghost("value", width, init=0)
        tagged = c.ghost("tagged", 1, init=0)
        hit = z3.And(a == 1, cw == wi)
        c.set_next(wv, z3.If(hit, I['write_data'], wv))
        c.set_next(tagged, z3.If(hit, bvc(1, 1), tagged))
        c.require("witness_slot_in_range", z3.ULT(z(wi), N))      # (not an environment assumption: restricts the proof's own index)
        live = z3.ULT(dist(mr, wi), d_cw)

        for nm, p in (("cw", cw), ("mw", mw), ("cr", cr), ("mr", mr)):
            c.inv(f"{nm}_in_range", z3.ULT(z(p), N))
        c.inv("order_read_le_committed", z3.ULE(d_cr, d_mw))
        c.inv("order_committed_le_written", z3.ULE(d_mw, d_cw))
        c.inv("at_most_depth_entries", z3.ULE(d_cw, D))
        rp = [v for k, v in ts.state.items() if k[0] == 'rp'][0]
        c.inv("read_register_shows_head", z3.Implies(z3.Not(empty_spec), rp == z3.Select(mem, zx(cr, mem.sort().domain().size()))))
        c.inv("live_slot_unchanged", z3.Implies(live, z3.And(tagged == 1, z3.Select(mem, zx(wi, mem.sort().domain().size())) == wv)))

        # ---- status outputs (statement, sentence 2)
        c.ensure("empty_iff_no_committed_unread_entry", (O['empty'] == 1) == empty_spec,
                 clause="'empty' is true exactly when no committed, unread entry remains")
        c.ensure("full_iff_no_write_fits", (O['full'] == 1) == full_spec, clause="'full' exactly when no further write fits")
        c.ensure("space_available_is_capacity_minus_held", z(O['space_available']) == D - d_cw,
                 clause="'space available' equals the capacity minus the entries held (including uncommitted writes and un-finalised reads)")
        # ---- queue operations.  `shift`: a read commit frees the finalised reads, moving the origin of the view.
        freed = dist(mr, n(mr))                           # entries freed in this cycle (the view's origin moves by this much)
        c.ensure("freed_entries_are_the_finalised_reads", z3.And(
            z3.Implies(z3.Not(rc), freed == 0), z3.Implies(z3.And(rc, z3.Not(rd)), freed == d_cr),
            z3.Implies(z3.And(rc, rd), z3.Or(freed == 0, freed == d_cr))),
            clause="entries are freed only by a read commit, and then exactly the reads made before it")
        # write side
        c.ensure("write_appends_when_not_full", z3.Implies(z3.Not(wd), d_cw2 + freed == d_cw + a),
                 clause="a write while not full appends one (uncommitted) entry; a write while full is ignored")
        c.ensure("write_commit_publishes", z3.Implies(z3.And(wc, z3.Not(wd)), d_mw2 + freed == d_cw),
                 clause="writes become readable only after a write commit")
        c.ensure("no_commit_no_publish", z3.Implies(z3.Not(wc), d_mw2 + freed == d_mw),
                 clause="without a write commit nothing new becomes readable")
        c.ensure("write_discard_erases", z3.Implies(z3.And(wd, z3.Not(wc)), d_cw2 + freed == d_mw),
                 clause="uncommitted writes are erased by a write discard")
        both_w = z3.And(wc, wd)
        c.ensure("write_commit_and_discard_is_some_serialisation", z3.Implies(both_w, z3.And(
            z3.ULE(d_mw2, d_cw2),
            z3.Or(d_mw2 + freed == d_mw, d_mw2 + freed == d_cw),
            z3.ULE(d_cw2 + freed, d_cw + a), z3.UGE(d_cw2, d_mw2))),
            clause="simultaneous write commit and write discard act as one of their two orders; committed data is never lost")
        # read side
        c.ensure("read_advances_when_not_empty", z3.Implies(z3.And(z3.Not(rd), z3.Not(rc)), d_cr2 == d_cr + r),
                 clause="a read while not empty advances the read position by one entry; a read while empty is ignored")
        c.ensure("read_commit_finalises", z3.Implies(z3.And(rc, z3.Not(rd)), d_cr2 == r),
                 clause="reads are finalised by a read commit (the entries read so far are freed)")
        c.ensure("read_discard_undoes", z3.Implies(z3.And(rd, z3.Not(rc)), d_cr2 == 0),
                 clause="reads since the last read commit are undone by a read discard")
        c.ensure("read_commit_and_discard_is_some_serialisation", z3.Implies(z3.And(rc, rd), z3.And(
            z3.ULE(d_cr2, d_mw2), z3.If(freed == 0, d_cr2 == 0, z3.ULE(d_cr2, r)))),
            clause="simultaneous read commit and read discard act as one of their two orders")
        # ---- contents
        c.ensure("read_returns_what_was_written",
                 z3.Implies(z3.And(z3.Not(empty_spec), cr == wi), O['read_data'] == wv),
                 clause="no entry is lost, duplicated or reordered: the entry at the read position is the value written to that slot")
        shallow = depth <= 9            # deeper FIFOs: "full" needs > 9 writes; BMC over the array theory gets slow, so
        #                                 those covers are checked as satisfiable-with-invariant only
        c.cover("full", O['full'] == 1, reach=shallow)
        c.cover("read_after_commit", z3.And(O['empty'] == 0, ren, tagged == 1, cr == wi), reach=shallow)
        c.cover("discard_with_pending", z3.And(wd, d_cw != d_mw), reach=shallow)
        c.cover("read_discard_with_pending", z3.And(rd, d_cr != 0), reach=shallow)
        c.cover_depth = min(3 * depth + 6, 40)
    return contract


def contracts(tier):
    cfgs = [(1, 8), (2, 8), (5, 8), (8, 1)] if tier == "quick" else \
           [(dp, 8) for dp in (1, 2, 3, 4, 5, 6, 7, 8, 9, 16, 64)] + [(4, 1), (7, 10), (16, 1)]
    for dp, w in cfgs:
        yield ("TransactionalizedFIFO", f"depth{dp}_width{w}", make(dp, w))
