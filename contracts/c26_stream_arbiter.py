"""C26 — StreamArbiter (and its SuperSpeed / header-queue specialisations): selected-only forwarding, no switching inside a
burst, priority pick when the selected input is idle, ready only to the selected input, idle iff nobody offers data.

Ghost `sel` = "the currently selected input", defined from the inputs' valid signals alone, exactly as the statement
describes the arbitration (power-on: input 0):

    sel' = sel                       if valid[sel]                       (never switches while that input's valid is held)
         = min{ i : valid[i] }       if not valid[sel] and some valid[i] (highest priority = added first = lowest index)
         = sel                       if nobody is valid                  (nothing to select; the statement names no other rule)

Everything else is stated on the ports: every field of `source` equals the field of input `sel` (so a word is forwarded
only from the selected input, unaltered), `ready` of input i is `source.ready` if i == sel and 0 otherwise, so

    transfer on input i  (valid_i & ready_i)   <=>   sel == i  &  transfer on source (source.valid & source.ready)

in the same cycle with identical payload: every accepted word is delivered exactly once and nothing else is delivered.
Non-interleaving is additionally spelled out on the ports one cycle ahead (clauses hold_* / pick_*).
No environment assumption is made (valid may drop at any time, payload may change, any back-pressure).
"""
import z3
from hwv.contract import B, zx, bvc
from luna.gateware.stream import StreamInterface
from luna.gateware.stream.arbiter import StreamArbiter
from luna.gateware.usb.stream import SuperSpeedStreamArbiter, USBRawSuperSpeedStream
from luna.gateware.usb.usb3.link.header import HeaderQueueArbiter, HeaderQueue

LEVEL = "proof"
EXPLANATION = ("Real StreamArbiter (generic 8-bit StreamInterface), SuperSpeedStreamArbiter (USBRawSuperSpeedStream, ss domain) and "
               "HeaderQueueArbiter (usb3/link/header.py, ss domain) with 1..4 inputs; ghost = selected input computed from the "
               "valid inputs by the statement's rule; invariant: active_stream_index == ghost; ensures pin every source field, "
               "every ready and idle (iff), plus one-cycle-ahead hold/pick clauses on the ports. Unbounded 1-induction.")


def data_fields(stream):
    """name -> Signal for every producer-to-consumer field except valid."""
    if isinstance(stream, HeaderQueue):
        return {"hdr_" + n: s for n, s in stream.header.fields.items()}
    out = {n: stream[n] for n in ("first", "last", "payload")}
    for f in getattr(stream, "_extra_fields", []):
        out[f[0]] = stream[f[0]]
    return out


KINDS = {
    "generic8":    (lambda: StreamArbiter(),           lambda: StreamInterface(),         "add_stream"),
    "generic16x":  (lambda: StreamArbiter(stream_type=lambda: StreamInterface(payload_width=16, extra_fields=[("tag", 3)])),
                    lambda: StreamInterface(payload_width=16, extra_fields=[("tag", 3)]), "add_stream"),
    "superspeed":  (lambda: SuperSpeedStreamArbiter(), lambda: USBRawSuperSpeedStream(),  "add_stream"),
    "headerqueue": (lambda: HeaderQueueArbiter(),      lambda: HeaderQueue(),             "add_producer"),
}


def make(kind, N):
    def contract(c):
        mk_arb, mk_stream, adder = KINDS[kind]
        d = mk_arb()
        sinks = [mk_stream() for _ in range(N)]
        for s in sinks:
            getattr(d, adder)(s)
        ports = {"idle": d.idle, "src_valid": d.source.valid, "src_ready": d.source.ready}
        fnames = list(data_fields(d.source))
        for n, s in data_fields(d.source).items():
            ports["src_" + n] = s
        for i, s in enumerate(sinks):
            ports[f"valid{i}"], ports[f"ready{i}"] = s.valid, s.ready
            for n, sg in data_fields(s).items():
                ports[f"{n}{i}"] = sg
        ts = c.unit(d, ports)
        I, O = ts.inputs, ts.outputs
        for i in range(N):
            assert f"valid{i}" in I and f"ready{i}" in O, (sorted(I), sorted(O))
        assert "src_ready" in I and "src_valid" in O and "idle" in O

        SW = max(1, (N - 1).bit_length())
        # power-on selection: the statement does not say which input is selected before anything was offered; it is
        # taken from the design (the power-on value of the selection register; 0 in the tree) and must name an input.
        idx = ts.find("active_stream_index")
        sel0 = 0
        if idx and N > 1:
            sig = ts.paths[ts.resolve(idx[0])]
            sel0 = [ts.init[k] for k, s_ in ts.ff_signal.items() if s_ is sig][0]
        sel = c.ghost("sel", SW, init=sel0)
        valid = [I[f"valid{i}"] != 0 for i in range(N)]
        is_sel = [sel == i for i in range(N)]
        sel_valid = z3.Or(*[z3.And(is_sel[i], valid[i]) for i in range(N)])
        none_valid = z3.Not(z3.Or(*valid))
        first_valid = [z3.And(valid[i], *[z3.Not(valid[j]) for j in range(i)]) for i in range(N)]   # i is the highest-priority waiting input
        pick = sel
        for i in reversed(range(N)):
            pick = z3.If(first_valid[i], bvc(i, SW), pick)
        c.set_next(sel, z3.If(sel_valid, sel, pick))

        c.inv("selected_in_range", z3.ULT(zx(sel, SW + 1), N))
        if idx and N > 1:
            c.inv("index_is_selected_input", zx(ts.sig(idx[0]), SW) == sel)

        def pick_field(prefix, env=I):
            e = env[f"{prefix}{N - 1}"]
            for i in reversed(range(N - 1)):
                e = z3.If(sel == i, env[f"{prefix}{i}"], e)
            return e

        # ---- forwards words only from the currently selected input (all fields, unaltered)
        c.ensure("source_valid_is_selected_valid", O["src_valid"] == pick_field("valid"),
                 clause="forwards words only from the currently selected input (valid)")
        for n in fnames:
            c.ensure(f"source_{n}_is_selected_{n}", O["src_" + n] == pick_field(n),
                     clause=f"forwards words only from the currently selected input ({n})")
        # ---- passes ready back only to the selected input
        for i in range(N):
            c.ensure(f"ready{i}_iff_selected_and_source_ready", (O[f"ready{i}"] == 1) == z3.And(is_sel[i], I["src_ready"] == 1),
                     clause="passes ready back only to the selected input")
        # ---- accepted exactly once
        src_xfer = z3.And(O["src_valid"] != 0, I["src_ready"] == 1)
        for i in range(N):
            c.ensure(f"input{i}_accepted_iff_delivered", z3.And(valid[i], O[f"ready{i}"] == 1) == z3.And(is_sel[i], src_xfer),
                     clause="every accepted word is delivered exactly once")
            c.ensure(f"input{i}_accepted_word_is_the_delivered_word",
                     z3.Implies(z3.And(valid[i], O[f"ready{i}"] == 1), z3.And(*[O["src_" + n] == I[f"{n}{i}"] for n in fnames])),
                     clause="every accepted word is delivered (same payload)")
        c.ensure("delivered_word_comes_from_exactly_one_input",
                 z3.Implies(src_xfer, z3.Or(*[z3.And(valid[i], O[f"ready{i}"] == 1, *[O[f"ready{j}"] == 0 for j in range(N) if j != i])
                                               for i in range(N)])),
                 clause="every delivered word was accepted from exactly one input")
        # ---- idle
        c.ensure("idle_iff_no_input_valid", (O["idle"] == 1) == none_valid,
                 clause="'idle' is asserted exactly when no input is offering data")
        # ---- never switches while valid is held / bursts never interleaved: stated on the ports, one cycle ahead
        nx = c.nx
        for i in range(N):
            serving_i_next = z3.And(nx(O["src_valid"]) == nx(I[f"valid{i}"]),
                                    *[nx(O["src_" + n]) == nx(I[f"{n}{i}"]) for n in fnames],
                                    nx(O[f"ready{i}"]) == nx(I["src_ready"]),
                                    *[nx(O[f"ready{j}"]) == 0 for j in range(N) if j != i])
            c.ensure(f"hold_input{i}_while_valid", z3.Implies(z3.And(is_sel[i], valid[i]), serving_i_next),
                     clause="never switches inputs while that input's valid is held; bursts are never interleaved")
            c.ensure(f"pick_input{i}_when_current_idle", z3.Implies(z3.And(z3.Not(sel_valid), first_valid[i]), serving_i_next),
                     clause="selects the highest-priority waiting input when the current one goes idle")
            c.cover(f"input{i}_word_delivered", z3.And(is_sel[i], src_xfer))
            if N > 1:
                c.cover(f"input{i}_waits_while_other_bursts", z3.And(valid[i], z3.Not(is_sel[i]), sel_valid))
        c.cover("idle", O["idle"] == 1)
        if N > 1:
            c.cover("lower_priority_keeps_bus_against_higher", z3.And(sel == N - 1, valid[N - 1], valid[0]))
            c.cover("switch", z3.And(z3.Not(sel_valid), z3.Not(none_valid)))
        c.cover_depth = 8
    return contract


def contracts(tier):
    if tier == "quick":
        cfgs = [("generic8", n) for n in (1, 2, 3, 4)] + [("superspeed", 4), ("superspeed", 3), ("headerqueue", 2), ("headerqueue", 3)]
    else:
        cfgs = [(k, n) for k in KINDS for n in (1, 2, 3, 4)] + [("generic8", 5), ("generic8", 8)]
    for kind, n in cfgs:
        unit = {"generic8": "StreamArbiter", "generic16x": "StreamArbiter", "superspeed": "SuperSpeedStreamArbiter",
                "headerqueue": "HeaderQueueArbiter"}[kind]
        yield (unit, f"{kind}_{n}in", make(kind, n))
