"""C47 — Isochronous timestamp packets are decoded in full (TimestampPacketReceiver, and its use in USB3ProtocolLayer).

Statement: "On each isochronous timestamp packet, the reported bus-interval counter and delta equal the packet's full
14-bit counter and 13-bit delta fields, and an update strobe is raised."

Spec side (USB 3.2 §8.7, Isochronous Timestamp Packet, header DW0):
    dw0[4:0]   = Type = 0b01100 (12)        dw0[18:5]  = Bus Interval Counter (14 bit)      dw0[31:19] = Delta (13 bit)
A *timestamp packet event* is a cycle in which the header queue offers a header (`valid`) whose type field is 12.

Units
  * TimestampPacketReceiver (real class, header queue open):  ghost = fields of the most recent timestamp packet,
    defined from the queue inputs only; ensures = the reported outputs ARE those ghosts (every bit of the 14/13-bit
    fields; an output narrower than the field is zero-extended, so a truncating declaration fails), strobe iff packet,
    packet consumed (ready) iff timestamp packet.
  * USB3ProtocolLayer (real class; the link layer it is handed is an *open* sidecar object with the real interface record
    types, i.e. free inputs): the same end-to-end clauses observed at the link layer's header queue and at the protocol
    layer's `bus_interval` output, plus wiring obligations that the receiver sits behind the demultiplexer unchanged.

Finding on the unchanged tree (proposed_fixes/C47_timestamp_output_widths.diff): `bus_interval_counter` and `delta` are
declared `Signal()` (1 bit) although documented as Signal(14)/Signal(13); only bit 0 of each field is reported.  Witness:
one header with dw0 = 0x4C (type 12, counter field = 2): the reported counter is 0 in the next cycle.  With the two
declarations widened every obligation below is discharged.
"""
import z3
from amaranth import Signal
from hwv.contract import B, bits, zx, bvc
from luna.gateware.usb.usb3.protocol.timestamp import TimestampPacketReceiver

LEVEL = "proof"
EXPLANATION = ("Real TimestampPacketReceiver and real USB3ProtocolLayer (open link-layer interface). Ghost = counter/delta "
               "fields of the most recent header with type 12, taken from the queue inputs. Ensures: outputs equal the "
               "ghost fields over the full 14/13 bits at all times after a packet (so also one cycle after each packet), "
               "update strobe one cycle after a packet and only then, packet accepted (ready) iff it is a timestamp "
               "packet. Unbounded 1-induction.")
ASSUMPTIONS = ["the 'ss' domain reset is not asserted", "one clock domain ('ss')"]

ITP_TYPE = 12                   # USB 3.2 table 8-? : Type field of an Isochronous Timestamp Packet = 01100b
CNT_W, DELTA_W = 14, 13


def eqw(a, b):
    """Equality of two vectors of possibly different declared width: the narrower one is zero-extended.  A reported value
    that is declared narrower than the field therefore only matches fields whose upper bits are zero."""
    w = max(a.size(), b.size())
    return zx(a, w) == zx(b, w)


def spec_ghosts(c, valid, dw0):
    """History of timestamp packets, from the observable queue only."""
    itp = z3.And(valid == 1, bits(dw0, 4, 0) == ITP_TYPE)
    seen = c.ghost("seen_itp", 1, init=0)
    cnt = c.ghost("last_counter", CNT_W, init=0)
    dlt = c.ghost("last_delta", DELTA_W, init=0)
    was = c.ghost("itp_last_cycle", 1, init=0)
    c.set_next(seen, z3.If(itp, bvc(1, 1), seen))
    c.set_next(cnt, z3.If(itp, bits(dw0, 18, 5), cnt))
    c.set_next(dlt, z3.If(itp, bits(dw0, 31, 19), dlt))
    c.set_next(was, z3.If(itp, bvc(1, 1), bvc(0, 1)))
    return itp, seen, cnt, dlt, was


def receiver(c):
    d = TimestampPacketReceiver()
    q, h = d.header_sink, d.header_sink.header
    ts = c.unit(d, {"valid": q.valid, "ready": q.ready, "dw0": h.dw0, "dw1": h.dw1, "dw2": h.dw2,
                    "crc16": h.crc16, "sequence_number": h.sequence_number, "deferred": h.deferred, "delayed": h.delayed,
                    "update_received": d.update_received, "bus_interval_counter": d.bus_interval_counter,
                    "delta": d.delta})
    I, O = ts.inputs, ts.outputs
    itp, seen, cnt, dlt, was = spec_ghosts(c, I["valid"], I["dw0"])
    bic, delta, upd = O["bus_interval_counter"], O["delta"], O["update_received"]

    # abstraction: the output registers are the fields of the most recent timestamp packet (reset value 0 before any)
    c.inv("counter_reg_is_last_packet_counter", eqw(bic, cnt))
    c.inv("delta_reg_is_last_packet_delta", eqw(delta, dlt))
    c.inv("strobe_reg_is_packet_in_previous_cycle", upd == was)
    c.inv("nothing_before_first_packet", z3.Implies(seen == 0, z3.And(cnt == 0, dlt == 0, was == 0)))

    # --- statement, clause by clause
    c.ensure("counter_equals_full_14bit_field", z3.Implies(itp, eqw(c.nx(bic), bits(I["dw0"], 18, 5))),
             clause="on each isochronous timestamp packet the reported bus-interval counter equals the packet's full 14-bit counter field")
    c.ensure("delta_equals_full_13bit_field", z3.Implies(itp, eqw(c.nx(delta), bits(I["dw0"], 31, 19))),
             clause="on each isochronous timestamp packet the reported delta equals the packet's full 13-bit delta field")
    c.ensure("update_strobe_iff_timestamp_packet", (c.nx(upd) == 1) == itp,
             clause="an update strobe is raised on each timestamp packet (and only then: one strobe cycle per packet cycle)")
    c.ensure("reported_values_are_those_of_latest_packet", z3.And(eqw(bic, cnt), eqw(delta, dlt)),
             clause="the reported counter and delta are (all bits of) the fields of the most recent timestamp packet at all times")
    c.ensure("values_change_only_on_timestamp_packets", z3.Implies(z3.Not(itp), z3.And(c.nx(bic) == bic, c.nx(delta) == delta)),
             clause="reported values belong to timestamp packets: any other header, or no header, leaves them unchanged")
    c.ensure("strobe_accompanies_new_values", z3.Implies(upd == 1, z3.And(seen == 1, eqw(bic, cnt), eqw(delta, dlt))),
             clause="when the strobe is high the outputs carry the packet's fields")
    c.ensure("packet_consumed_iff_timestamp_packet", (O["ready"] == 1) == itp,
             clause="each timestamp packet is taken from the header queue exactly once; headers of other types are left to their handlers")
    # the declared widths can hold the fields (a structural fact of the netlist, decided here rather than by the solver)
    c.lemma("counter_output_is_14_bits_wide", z3.BoolVal(bic.size() >= CNT_W),
            clause="reported bus-interval counter is the full 14-bit field")
    c.lemma("delta_output_is_13_bits_wide", z3.BoolVal(delta.size() >= DELTA_W),
            clause="reported delta is the full 13-bit field")

    c.cover("timestamp_packet_with_large_fields", z3.And(itp, z3.UGT(bits(I["dw0"], 18, 5), 0x2000), z3.UGT(bits(I["dw0"], 31, 19), 0x1000)))
    c.cover("strobe_raised", upd == 1)
    c.cover("non_timestamp_header_offered", z3.And(I["valid"] == 1, z3.Not(itp), seen == 1))
    c.cover("two_different_packets", z3.And(itp, seen == 1, bits(I["dw0"], 18, 5) != cnt))


class OpenLinkLayer:
    """Sidecar stand-in for the link layer object handed to USB3ProtocolLayer: only the interface *records/signals* the
    protocol layer reads or drives, of the real types, driven by nobody (=> free inputs of the netlist).  No behaviour."""
    def __init__(self):
        from luna.gateware.usb.usb3.link.header import HeaderQueue
        from luna.gateware.usb.usb3.link.data import DataHeaderPacket
        from luna.gateware.usb.stream import SuperSpeedStreamInterface
        self.header_sink = HeaderQueue()
        self.header_source = HeaderQueue()
        self.data_source = SuperSpeedStreamInterface()
        self.data_header_from_host = DataHeaderPacket()
        self.data_source_complete = Signal()
        self.data_source_invalid = Signal()
        self.data_sink = SuperSpeedStreamInterface()
        self.data_sink_send_zlp = Signal()
        self.data_sink_sequence_number = Signal(5)
        self.data_sink_endpoint_number = Signal(4)
        self.data_sink_length = Signal(range(1024 + 1))
        self.data_sink_direction = Signal()
        self.current_address = Signal(7)
        self.trained = Signal()
        self.ready = Signal()
        self.in_reset = Signal()


def protocol_layer(c):
    from luna.gateware.usb.usb3.protocol.layer import USB3ProtocolLayer
    link = OpenLinkLayer()
    d = USB3ProtocolLayer(link_layer=link)
    q, h = link.header_source, link.header_source.header
    ts = c.unit(d, {"valid": q.valid, "ready": q.ready, "dw0": h.dw0, "dw1": h.dw1, "dw2": h.dw2,
                    "bus_interval": d.bus_interval, "link_ready": link.ready, "in_reset": link.in_reset})
    I, O = ts.inputs, ts.outputs
    itp, seen, cnt, dlt, was = spec_ghosts(c, I["valid"], I["dw0"])
    r = ts.instance(TimestampPacketReceiver)
    of = ts.of
    bic, delta, upd = of(r.bus_interval_counter), of(r.delta), of(r.update_received)

    # wiring (caller side): the receiver sees the link layer's header queue unchanged through the demultiplexer ...
    c.comb("receiver_sees_link_header_valid", of(r.header_sink.valid), I["valid"],
           clause="protocol layer hands every received header to the timestamp receiver")
    c.comb("receiver_sees_link_header_dw0", of(r.header_sink.header.dw0), I["dw0"],
           clause="protocol layer hands every received header to the timestamp receiver")
    # ... and the layer's output is the receiver's output, all 14 bits
    c.lemma("bus_interval_is_14_bits", z3.BoolVal(O["bus_interval"].size() >= CNT_W))
    c.comb("bus_interval_is_receiver_counter", zx(O["bus_interval"], CNT_W), zx(bic, CNT_W),
           clause="the protocol layer's bus_interval is the receiver's reported counter")

    c.inv("counter_reg_is_last_packet_counter", eqw(bic, cnt))
    c.inv("delta_reg_is_last_packet_delta", eqw(delta, dlt))
    c.inv("strobe_reg_is_packet_in_previous_cycle", upd == was)

    c.ensure("layer_bus_interval_equals_full_14bit_field", z3.Implies(itp, eqw(c.nx(O["bus_interval"]), bits(I["dw0"], 18, 5))),
             clause="on each isochronous timestamp packet the reported bus-interval counter equals the packet's full 14-bit counter field (as reported by the protocol layer)")
    c.ensure("layer_bus_interval_is_latest_packet_counter", eqw(O["bus_interval"], cnt),
             clause="the protocol layer's bus_interval is the counter of the most recent timestamp packet, all 14 bits, at all times")
    c.ensure("layer_delta_equals_full_13bit_field", z3.Implies(itp, eqw(c.nx(delta), bits(I["dw0"], 31, 19))),
             clause="... and the delta equals the packet's full 13-bit delta field (receiver instance inside the layer)")
    c.ensure("layer_update_strobe_iff_timestamp_packet", (c.nx(upd) == 1) == itp,
             clause="an update strobe is raised (receiver instance inside the layer)")
    c.ensure("layer_accepts_every_timestamp_packet", z3.Implies(itp, O["ready"] == 1),
             clause="each timestamp packet is accepted from the link layer's header queue when it is offered")
    c.cover("layer_timestamp_packet_with_large_counter", z3.And(itp, z3.UGT(bits(I["dw0"], 18, 5), 0x2000)))
    c.cover("layer_bus_interval_nonzero", O["bus_interval"] != 0)


def protocol_layer_wiring(c):
    """USB3ProtocolLayer with every interface signal a free input (the contract above leaves the ports it does not name at 0):
    the timestamp receiver is shown every field of every header the link layer offers, a header it accepts is taken from the link
    layer's queue, and bus_interval is its counter output at full width."""
    from .c46_ss_in_endpoint import open_protocol_layer, header_queue_consumer_sees, same
    d, link, ts = open_protocol_layer(c)
    r = ts.instance(TimestampPacketReceiver)
    c.lemma("receiver_sees_every_field_of_every_received_header", header_queue_consumer_sees(ts, r.header_sink, link.header_source),
            clause="On each isochronous timestamp packet: the receiver's header_sink (valid, every header field) is the link layer's header_source")
    c.lemma("header_accepted_by_receiver_is_taken_from_the_link_layer",
            z3.Implies(ts.of(r.header_sink.ready) == 1, ts.of(link.header_source.ready) == 1),
            clause="each timestamp packet is consumed once")
    c.lemma("bus_interval_is_receiver_counter_at_full_width", same(ts, d.bus_interval, r.bus_interval_counter),
            clause="the reported bus-interval counter equals the packet's full 14-bit counter: same width, same value at the layer boundary")
    c.cosim_cycles = 16


def contracts(tier):
    yield ("TimestampPacketReceiver", "", receiver)
    yield ("USB3ProtocolLayer", "wiring_all_ports", protocol_layer_wiring)
    yield ("USB3ProtocolLayer", "open_link", protocol_layer)
