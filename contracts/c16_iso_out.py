"""C16 — USBIsochronousStreamOutEndpoint delivers only whole, CRC-valid packets addressed to it.

Unit: the real USBIsochronousStreamOutEndpoint with its real boundary detector and transactional FIFO inlined; the cut is
the EndpointInterface (receiver / token detector outputs are inputs constrained by the requires of b1_rxpath.RxView plus
'the token does not change during a data packet').

Spec model (ghosts, from the inputs only):  tgt = current token is OUT for my endpoint number.  When the *first* byte of a
packet reaches the buffer the endpoint decides, once for the whole packet, whether it takes it: `room` = a whole max-size
packet fits (space_available >= max_packet_size).  Every byte of a taken packet is stored; no byte of a packet that is
not taken is stored.  Two cycles after the packet ended the stored bytes are committed iff tgt and CRC good, discarded iff
tgt and CRC bad.  Entries carry (first = first byte of its packet, last = final byte of its packet, data).

Finding on the unchanged tree: `sufficient_space` is re-evaluated for every byte, so once the bytes of the packet itself
have reduced space_available below max_packet_size the remaining bytes are silently skipped and the truncated packet
(without its `last` byte) is committed.
"""
import z3
from hwv.contract import B, bvc, zx, bv1, bits
from luna.gateware.usb.usb2.endpoints.isochronous_stream_out import USBIsochronousStreamOutEndpoint
from luna.gateware.usb.stream import USBOutStreamBoundaryDetector
from luna.gateware.memory import TransactionalizedFIFO
from .b1_rxpath import RxView, QueueView, CW

PID_OUT = 0b0001

EXPLANATION = (
    "1-induction over the extracted transition system of the real USBIsochronousStreamOutEndpoint (boundary detector and "
    "transactional FIFO inlined); data integrity by a symbolic witness index into the sequence of committed bytes.")


def make(max_packet, buffer_size, epnum):
    def contract(c):
        d = USBIsochronousStreamOutEndpoint(endpoint_number=epnum, max_packet_size=max_packet, buffer_size=buffer_size)
        i, t = d.interface, d.interface.tokenizer
        ts = c.unit(d, {
            "pid": t.pid, "ep": t.endpoint, "is_out": t.is_out, "new_token": t.new_token,
            "rx_valid": i.rx.valid, "rx_next": i.rx.next, "rx_payload": i.rx.payload, "rx_complete": i.rx_complete,
            "rx_invalid": i.rx_invalid,
            "s_valid": d.stream.valid, "s_ready": d.stream.ready, "s_payload": d.stream.payload.as_value()})
        I, O = ts.inputs, ts.outputs
        s_first, s_last, s_data = bits(O["s_payload"], 0), bits(O["s_payload"], 1), bits(O["s_payload"], 9, 2)
        bd = ts.instance(USBOutStreamBoundaryDetector)
        fifo = ts.instance(TransactionalizedFIFO)
        D = fifo.depth
        g = c.ghost

        rx = RxView(c, ts, I, max_packet)
        q = QueueView(c, ts, fifo, D)
        valid, is_open, closing, strobe, pb = rx.valid, rx.is_open, rx.closing, rx.strobe, rx.pb

        tgt = z3.And(I["ep"] == epnum, I["pid"] == PID_OUT)
        l_pid, l_ep = g("last_pid", 4), g("last_ep", 4)
        c.set_next(l_pid, I["pid"]); c.set_next(l_ep, I["ep"])
        room = z3.UGE(q.space, max_packet)                       # a whole max-size packet fits
        first_byte = z3.And(pb, rx.pbf == 1)
        taken = g("packet_taken", 1)                             # the decision made at the packet's first byte
        c.set_next(taken, z3.If(first_byte, bv1(room), taken))
        take = z3.If(rx.pbf == 1, room, taken == 1)              # ... as it applies to the byte visible now
        store = z3.And(pb, tgt, take)
        commit_ev = z3.And(strobe, tgt, rx.st_c == 1)
        discard_ev = z3.And(strobe, tgt, rx.st_i == 1)
        pop = z3.And(O["s_valid"] == 1, I["s_ready"] == 1)
        q.drive(store, commit_ev, discard_ev, pop, z3.Concat(rx.pbf, rx.closing_g, rx.pbd), z3.BoolVal(True))
        q.track_previous_entry(init=0x100)                       # the (virtual) entry before the very first one counts as 'last'
        out_mid = g("out_mid_packet", 1)                         # observer of the output: the byte taken last was not marked last
        c.set_next(out_mid, z3.If(pop, ~bits(O["s_payload"], 1), out_mid))

        # ------------------------------------------------------------ environment
        busy = z3.Or(valid, rx.pv == 1, rx.in_data_phase)
        c.require("token_flags_decode_pid", (I["is_out"] == 1) == (I["pid"] == PID_OUT),
                  why="USBTokenDetector drives is_out combinationally from pid")
        c.require("token_stable_during_data_packet", z3.Implies(busy, z3.And(I["pid"] == l_pid, I["ep"] == l_ep)),
                  why="USB transaction protocol: no new token arrives between the first cycle of a data packet and the cycle in "
                      "which it has drained through the boundary detector (2 cycles after its end)")

        # ------------------------------------------------------------ abstraction map
        rx.invariants(bd)
        q.invariants()
        inv = c.inv
        OK = z3.And(l_ep == epnum, l_pid == PID_OUT)
        if ts.has("packet_accepted"):        # register introduced by proposed_fixes/C16_*.diff; absent in the unfixed design
            inv("packet_accepted_register", ts.sig("packet_accepted") == taken)
        inv("never_overflows", ts.sig("overflow") == 0)
        rxc = ts.sig("rx_cnt")
        inv("rx_cnt_counts_pending", rxc == z3.Extract(rxc.size() - 1, 0, q.n_p))
        inv("pending_only_in_data_phase", z3.Implies(z3.Not(rx.in_data_phase), q.n_p == 0))
        inv("pending_only_for_my_out_token", z3.Implies(q.n_p != 0, OK))
        inv("pending_is_whole_packet_so_far_or_nothing",
            z3.Implies(z3.Or(is_open, closing), q.n_p == z3.If(z3.And(OK, taken == 1), zx(rx.pidx, CW), bvc(0, CW))))
        inv("taken_packet_still_fits",
            z3.Implies(z3.And(z3.Or(is_open, closing), OK, taken == 1, rx.pidx != 0),
                       z3.ULE(q.held + (bvc(max_packet, CW) - zx(rx.pidx, CW)), D)))

        # framing of the committed sequence (entry k and its predecessor k-1)
        prev_last = bits(q.wit_prev, 8)
        inv("out_mid_is_previous_entry_not_last", z3.Implies(q.n_r == q.k, out_mid == ~prev_last))
        inv("first_pairs_with_previous_last", z3.Implies(q.live, bits(q.wit, 9) == prev_last))
        next_is_k = q.k == q.n_c + q.n_p
        inv("pending_entries_are_not_last_while_packet_runs",
            z3.Implies(z3.And(z3.Or(is_open, closing), q.n_p != 0, next_is_k), prev_last == 0))
        inv("final_pending_entry_is_last_when_packet_drained", z3.Implies(z3.And(strobe, q.n_p != 0, next_is_k), prev_last == 1))
        inv("committed_sequence_ends_with_last", z3.Implies(q.k == q.n_c, prev_last == 1))

        # ------------------------------------------------------------ ensures
        ens = c.ensure
        ens("output_stream_is_a_sequence_of_whole_packets",
            z3.Implies(z3.And(O["s_valid"] == 1, q.n_r == q.k), (s_first == 1) == (out_mid == 0)),
            clause="the output stream consists of complete payloads, each marked first on its first byte and last on its final "
                   "byte: a byte is marked first exactly when the byte delivered before it was marked last (or it is the very "
                   "first byte) — no packet is truncated, none starts inside another (stated for the k-th delivered byte, k arbitrary)")
        ens("byte_is_written_iff_its_packet_was_taken", (ts.sig("fifo.write_en") == 1) == store,
            clause="a packet is dropped as a whole rather than truncated: a byte is written to the buffer iff it belongs to a "
                   "packet for this endpoint that was taken when its first byte arrived (checked at the FIFO's write port, whose "
                   "queue behaviour is C18)")
        ens("fifo_commit_and_discard_follow_the_crc_verdict",
            z3.And((ts.sig("fifo.write_commit") == 1) == commit_ev, (ts.sig("fifo.write_discard") == 1) == discard_ev),
            clause="complete payloads of CRC-valid packets are committed, corrupted packets are discarded (FIFO write port)")
        whole = zx(rx.pidx, CW) + 1                                           # length of the packet whose final byte is visible
        ens("packet_kept_whole_or_dropped_whole",
            z3.Implies(closing, c.nx(q.n_p) == z3.If(z3.And(tgt, take), whole, bvc(0, CW))),
            clause="when buffer space runs out a packet is dropped as a whole rather than truncated: when the final byte has "
                   "passed, either every byte of the packet is pending or none is; it is dropped only if a max-size packet did "
                   "not fit when its first byte arrived (or it was not addressed to this endpoint)")
        ens("commit_iff_crc_valid_packet_for_me",
            c.nx(q.n_c) == z3.If(z3.And(strobe, tgt, rx.st_c == 1), q.n_c + q.n_p, q.n_c),
            clause="the output stream consists of complete payloads of CRC-valid packets addressed to the endpoint")
        ens("corrupted_packet_contributes_nothing",
            z3.Implies(z3.And(strobe, rx.st_i == 1, tgt), z3.And(c.nx(q.n_c) == q.n_c, c.nx(q.n_p) == 0)),
            clause="corrupted packets contribute nothing")
        ens("other_endpoints_packets_contribute_nothing", z3.Implies(z3.And(pb, z3.Not(tgt)), c.nx(q.n_p) == q.n_p),
            clause="only packets addressed to the endpoint are stored")
        ens("stream_valid_iff_committed_bytes_unread", (O["s_valid"] == 1) == (q.unread != 0),
            clause="the output stream offers exactly the committed, not yet consumed bytes (all back-pressure patterns)")
        at_k = z3.And(O["s_valid"] == 1, q.n_r == q.k)
        ens("kth_stream_byte_is_kth_committed_byte", z3.Implies(at_k, s_data == bits(q.wit, 7, 0)),
            clause="complete payloads ... in order (k-th byte delivered = k-th byte committed, k arbitrary)")
        ens("last_marks_final_byte_of_packet", z3.Implies(at_k, s_last == bits(q.wit, 8)),
            clause="each packet is marked last on its final byte (and on no other)")
        ens("first_marks_first_byte_of_packet", z3.Implies(at_k, s_first == bits(q.wit, 9)),
            clause="each packet is marked first on its first byte (and on no other)")

        # ------------------------------------------------------------ covers
        small = max_packet <= 2
        cov = c.cover if small else (lambda n, e: c.cover(n, e, reach=False))
        cov("second_packet_starts_after_last", z3.And(O["s_valid"] == 1, s_first == 1, q.n_r != 0, q.n_r == q.k))
        cov("packet_committed", z3.And(commit_ev, q.n_p == max_packet))
        cov("packet_dropped_for_lack_of_space", z3.And(closing, tgt, z3.Not(take), rx.cl_c == 1, rx.pidx == max_packet - 1))
        if D > max_packet:                      # (with buffer_size == max_packet_size a packet only fits into an empty buffer)
            cov("packet_taken_into_partly_filled_buffer", z3.And(closing, tgt, take, q.unread != 0, rx.pidx == max_packet - 1))
        cov("corrupted_packet_discarded", z3.And(discard_ev, q.n_p != 0))
        cov("packet_for_other_endpoint", z3.And(pb, z3.Not(tgt)))
        cov("stream_last", z3.And(at_k, s_last == 1, s_first == 0, I["s_ready"] == 1))
        cov("single_byte_packet_delivered", z3.And(at_k, s_last == 1, s_first == 1))
        cov("back_pressure", z3.And(O["s_valid"] == 1, I["s_ready"] == 0))
        c.cover_depth = 30 if small else None
        c.bmc_depth = max(c.bmc_depth, 40)
        c.timeout_s = max(c.timeout_s, 240)
    return contract


def contracts(tier):
    cfgs = [(2, None, 3), (4, 6, 1)] if tier == "quick" else \
           [(2, None, 3), (2, 2, 15), (4, 6, 1), (3, None, 2), (8, None, 1), (16, 48, 2), (64, None, 3), (1024, None, 1)]
    for mp, bs, ep in cfgs:
        yield ("USBIsochronousStreamOutEndpoint", f"max{mp}_buf{bs if bs is not None else 2 * mp}_ep{ep}", make(mp, bs, ep))
