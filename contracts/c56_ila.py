"""C56 — IntegratedLogicAnalyzer: after a trigger exactly sample_depth consecutive samples of the (pre-trigger delayed) inputs
are recorded, `complete` is raised, sample n reads back as the n-th recorded sample, triggers during capture are ignored.

Spec (ghosts, from the ports only).  D = sample_depth, P = samples_pretrigger, x(t) = Cat(*signals) in cycle t.
    busy, k    : a capture is running and k samples of it have been recorded (spec sequencer, restarted only by a trigger
                 that arrives while not busy; lasts exactly D cycles)
    h[j]       : x(t-1-j), j < P  (input history) -> the value recorded in a busy cycle is x(t-P)
                 ("delayed by the configured pre-trigger count": with trigger in cycle T, sample n = x(T+1+n-P))
    done       : a capture has finished and no later trigger was accepted
    witness    : rigid index n < D;  v := value recorded when busy & k == n  (the n-th recorded sample of the latest capture)
Ensures: sampling <=> busy; complete <=> done; done & captured_sample_number == n  =>  captured_sample (next cycle, the
read port is synchronous) == v; buffer word n changes only in the cycle busy & k == n and then becomes x(t-P).
"""
import z3
from amaranth import Signal
from hwv.contract import B, zx, bvc
from luna.gateware.debug.ila import IntegratedLogicAnalyzer

LEVEL = "proof"
EXPLANATION = ("Real IntegratedLogicAnalyzer per (sample_depth, samples_pretrigger, domain); ghosts = capture sequencer, input "
               "history, completion flag, symbolic witness sample (index n, value v); invariant ties FSM/write pointer/"
               "write enable/delay pipeline/buffer word n to the ghosts; ensures from the statement. Unbounded 1-induction; "
               "the witness index is arbitrary, so the read-back clause holds for every n. "
               "Wrappers (contracts/w6_util_wrappers.py): real StreamILA / SyncSerialILA / AsyncSerialILA with the real analyzer (and "
               "SPI / UART children) inside: the leaf clauses re-proved at the child's ports with the wrapper's parameters and inputs, "
               "the child's trigger = wrapper trigger only while idle, read address walks 0..depth-1, n-th word on the stream / n-th "
               "word loaded into the SPI shifter = n-th recorded sample, first/last framing, exactly depth words per trigger.")
ASSUMPTIONS = ["StreamILA with o_domain != domain (AsyncFIFOBuffered clock crossing: asynchronous resets, two real clocks) is outside the technique",
               "SyncSerialILA: the read-out clauses hold while `complete` is high (the wrapper does not gate triggers; a trigger during an SPI "
               "read-out restarts the capture by design); word 0 of a transaction needs CS low for >= 4 cycles before it rises",
               "SyncSerialILA / AsyncSerialILA: the serial bit streams themselves are the children's contracts (C50 / C49); here only what "
               "the children are handed (call obligations) is proved"]


def make(D, P, domain="sync", widths=(4, 1)):
    def contract(c):
        sigs = [Signal(w, name=f"in{i}") for i, w in enumerate(widths)]
        d = IntegratedLogicAnalyzer(signals=sigs, sample_depth=D, samples_pretrigger=P, domain=domain)
        ports = {f"in{i}": s for i, s in enumerate(sigs)}
        ports.update({"trigger": d.trigger, "sampling": d.sampling, "complete": d.complete, "sample": d.captured_sample})
        if D > 1:                                   # depth 1: the sample number is a zero-width signal (always sample 0)
            ports["number"] = d.captured_sample_number
        ts = c.unit(d, ports)
        I, O = ts.inputs, ts.outputs
        SW = sum(widths)
        x = z3.Concat(*[I[f"in{i}"] for i in reversed(range(len(sigs)))]) if len(sigs) > 1 else I["in0"]
        assert x.size() == SW == O["sample"].size()
        KW = 16
        trig = I["trigger"] == 1

        busy = c.ghost("busy", 1, init=0)
        k = c.ghost("k", KW, init=0)
        done = c.ghost("done", 1, init=0)
        last = k == D - 1
        accept = z3.And(busy == 0, trig)
        c.set_next(busy, z3.If(busy == 1, z3.If(last, bvc(0, 1), bvc(1, 1)), z3.If(trig, bvc(1, 1), bvc(0, 1))))
        c.set_next(k, z3.If(z3.And(busy == 1, z3.Not(last)), k + 1, bvc(0, KW)))
        c.set_next(done, z3.If(z3.And(busy == 1, last), bvc(1, 1), z3.If(accept, bvc(0, 1), done)))
        h = [c.ghost(f"h{j}", SW, init=0) for j in range(P)]
        for j in range(P):
            c.set_next(h[j], x if j == 0 else h[j - 1])
        rec = x if P == 0 else h[P - 1]                      # the value recorded in this cycle if busy: x(t-P)

        AW = max(1, (D - 1).bit_length())
        n = c.rigid("n", AW)
        c.require("witness_index_in_range", z3.ULT(zx(n, AW + 1), D))    # restricts the proof's own index, not the environment
        v = c.ghost("v", SW, init=0)
        have = c.ghost("have", 1, init=0)
        hit = z3.And(busy == 1, k == zx(n, KW))
        c.set_next(v, z3.If(hit, rec, v))
        c.set_next(have, z3.If(hit, bvc(1, 1), have))

        number_is_n = zx(I["number"], AW + 1) == zx(n, AW + 1) if D > 1 else z3.BoolVal(True)
        fsm = ts.fsm("ila_state_state")
        mem, cell = ts.mem("ila_buffer")
        maw = mem.sort().domain().size()
        word_n = z3.Select(mem, zx(n, maw))
        c.inv("fsm_legal", fsm.legal())
        c.inv("sample_state_iff_capturing", fsm.is_("SAMPLE") == (busy == 1))
        c.inv("count_in_range", z3.ULT(k, D))
        c.inv("not_capturing_count_zero", z3.Implies(busy == 0, k == 0))
        c.inv("done_excludes_capturing", z3.Not(z3.And(busy == 1, done == 1)))
        c.inv("write_enable_iff_capturing", (ts.sig("write_port__en") == 1) == (busy == 1))
        if D > 1:
            c.inv("write_position_is_count", z3.Implies(busy == 1, zx(ts.sig("write_position"), KW) == k))
        c.inv("complete_register_is_done", (ts.sig("complete") == 1) == (done == 1))
        if P >= 1:
            c.inv("delayed_inputs_is_history", ts.sig("delayed_inputs") == h[P - 1])
        for j in range(P - 1):
            st = ts.find(f"stage{j}")
            assert len(st) == 1, st
            c.inv(f"synchronizer_stage{j}_is_history", ts.sig(st[0]) == h[j])
        c.inv("witness_word_holds_recorded_sample", z3.Implies(have == 1, word_n == v))
        c.inv("witness_recorded_once_passed", z3.Implies(z3.And(busy == 1, z3.UGT(k, zx(n, KW))), have == 1))
        c.inv("witness_recorded_when_done", z3.Implies(done == 1, have == 1))

        c.ensure("sampling_iff_capturing", (O["sampling"] == 1) == (busy == 1),
                 clause="after a trigger, records exactly sample_depth consecutive samples (sampling is high for exactly those cycles)")
        c.ensure("capture_starts_only_on_trigger_when_idle", z3.Implies(O["sampling"] == 0, (c.nx(O["sampling"]) == 1) == trig),
                 clause="after a trigger ... (capture starts the cycle after a trigger, and only then)")
        c.ensure("capture_ends_after_exactly_depth_samples", z3.Implies(O["sampling"] == 1, (c.nx(O["sampling"]) == 0) == last),
                 clause="records exactly sample_depth consecutive samples; no trigger during capture disturbs it")
        c.ensure("complete_iff_capture_finished", (O["complete"] == 1) == (done == 1),
                 clause="raises 'complete' (from the end of the capture until the next accepted trigger)")
        c.ensure("complete_raised_when_sampling_ends", (c.nx(O["complete"]) == 1) == z3.Or(z3.And(busy == 1, last), z3.And(O["complete"] == 1, z3.Not(accept))),
                 clause="raises 'complete' exactly when the last sample has been recorded")
        c.ensure("buffer_word_written_exactly_when_its_sample_is_taken", c.nx(word_n) == z3.If(hit, rec, word_n),
                 clause="records exactly sample_depth consecutive samples of its inputs (delayed by the configured pre-trigger count); "
                        "no trigger during capture disturbs it; nothing is written outside a capture")
        c.ensure("readback_returns_nth_recorded_sample",
                 z3.Implies(z3.And(done == 1, number_is_n), c.nx(O["sample"]) == v),
                 clause="reading back sample n returns the n-th recorded sample")

        deep = D + P + 5
        reach = deep <= 24                     # BMC over the buffer array gets slow beyond that; deeper configurations use the Inv-satisfiability guard
        c.cover("capture_complete", z3.And(O["complete"] == 1, have == 1), reach=reach)
        c.cover("trigger_during_capture", z3.And(busy == 1, trig, k == (1 if D > 1 else 0)))
        c.cover("second_capture", z3.And(done == 1, trig), reach=reach)
        c.cover("readback_nonzero", z3.And(done == 1, number_is_n, v != 0, c.nx(O["sample"]) == v), reach=reach)
        c.cover_depth = deep if reach else 8
    return contract


def contracts(tier):
    if tier == "quick":
        cfgs = [(2, 1, "sync"), (3, 0, "sync"), (4, 1, "sync"), (5, 2, "usb"), (8, 3, "sync"), (1, 1, "sync")]
    else:
        cfgs = [(dp, p, "sync") for dp in (1, 2, 3, 4, 5, 6, 7, 8, 16, 32) for p in (0, 1, 2, 3)] + [(5, 2, "usb"), (16, 4, "usb")]
    for dp, p, dom in cfgs:
        yield ("IntegratedLogicAnalyzer", f"depth{dp}_pre{p}_{dom}", make(dp, p, dom))
    if tier != "quick":
        yield ("IntegratedLogicAnalyzer", "depth6_pre1_wide", make(6, 1, "sync", widths=(8, 3, 1, 16)))
    # caller-side obligations + end-to-end read-out clauses for the wrappers in the same file (StreamILA, SyncSerialILA,
    # AsyncSerialILA), each with the real IntegratedLogicAnalyzer inside: contracts/w6_util_wrappers.py
    from contracts.w6_util_wrappers import ila_wrapper_contracts
    yield from ila_wrapper_contracts(tier)
