"""Caller-side ("call" / wiring) obligations for the USB2 device-level glue — shared by C02/C03/C05/C08/C11/C12/C13/C14/C21.

The leaf contracts of those properties cut the design at an interface (EndpointInterface, InterpacketTimerInterface,
DataCRCInterface, UTMI transmit interface, ...) and treat the far side as free inputs constrained by `require`s.  Nothing in a
leaf contract says that the *parent* connects the unit the way those requires assume.  The functions below state exactly
that, on the netlists of the real parents:

  * `mux_wiring(n, groups)`      USBEndpointMultiplexer with n bare EndpointInterfaces (every signal of every interface is a
                                 free input: the clauses hold FOR ALL VALUES of all other lines);
  * `device_wiring(kind, groups)` USBDevice (kind "utmi": raw UTMI bus, 12 MHz, always full speed;  "ulpi": ULPI PHY, 60 MHz,
                                 HS capable) with a standard control endpoint, a bulk IN and a bulk OUT endpoint (same endpoint
                                 number, different directions) added;  end-to-end from the ports of the real leaf instances
                                 (token detector, handshake detector/generator, receiver, transmitter, CRC unit, timers, UTMI
                                 transmit multiplexer) to the ports of the real endpoint instances, through USBDevice.elaborate
                                 and USBEndpointMultiplexer.elaborate;
  * `device_timers(kind)`        the two USBInterpacketTimer instances inside that device meet the C05 timing table *for the
                                 device's own clock*, measured at the users' ports, with the device's own speed.

`groups` selects the record groups a property relies on (names below); every group pins down every field of the records it
covers, not only the fields some known defect touched.
"""
import functools
import operator
import z3
from hwv.contract import B, bits, zx, bvc, bv1, BindingError
from luna.gateware.usb.usb2.endpoint import USBEndpointMultiplexer, EndpointInterface
from luna.gateware.usb.usb2.packet import (USBTokenDetector, USBHandshakeDetector, USBHandshakeGenerator, USBDataPacketCRC,
                                           USBDataPacketReceiver, USBDataPacketGenerator, USBInterpacketTimer)
from luna.gateware.interface.utmi import UTMIInterface, UTMIInterfaceMultiplexer
from .c10_unsupported_requests_stall import hier, within, instance_regs, instance_reg, instance_path

ALL_GROUPS = ("tokenizer", "handshakes_in", "rx", "state", "crc", "timer", "clear_halt", "tx", "handshakes_out", "commit")

TOKENIZER_FIELDS = ("pid", "address", "endpoint", "new_token", "ready_for_response", "frame", "new_frame",
                    "is_in", "is_out", "is_setup", "is_ping")
HANDSHAKES = ("ack", "nak", "stall", "nyet")


def OR(terms):
    terms = list(terms)
    return functools.reduce(operator.or_, terms) if terms else None


def term(ts, sig):
    """z3 term of a Signal of the design.  A signal that nothing drives does not appear in the netlist: every reader sees its
    reset value, so that constant is its term (a dropped connection then refutes the wiring clause instead of failing to bind)."""
    try:
        return ts.of(sig)
    except BindingError:
        init = getattr(sig, "init", 0)
        return z3.BitVecVal(int(init) if isinstance(init, int) else 0, len(sig))


class Lazy(dict):
    """name -> z3 term of the signal, resolved on first use."""

    def __init__(self, ts, sigs):
        super().__init__()
        self.ts, self.sigs = ts, sigs

    def __missing__(self, k):
        v = term(self.ts, self.sigs[k])
        self[k] = v
        return v


def iface_signals(i):
    """name -> Signal for every signal of an EndpointInterface (the whole record, both directions)."""
    out = {}
    for grp in ("tokenizer", "handshakes_in", "handshakes_out", "data_crc", "timer"):
        rec = getattr(i, grp)
        for f in rec.fields:
            out[f"{grp}_{f}"] = rec[f]
    for f in ("valid", "next", "payload"):
        out["rx_" + f] = i.rx[f]
    for f in ("valid", "ready", "first", "last", "payload"):
        out["tx_" + f] = i.tx[f]
    for f in ("speed", "active_address", "address_changed", "new_address", "active_config", "config_changed", "new_config",
              "rx_complete", "rx_ready_for_response", "rx_invalid", "rx_pid_toggle", "tx_pid_toggle"):
        out[f] = getattr(i, f)
    out["clear_endpoint_halt_out"] = i.clear_endpoint_halt_out.as_value()
    out["clear_endpoint_halt_in"] = i.clear_endpoint_halt_in.as_value()
    return out


# =================================================================================================== USBEndpointMultiplexer
def mux_wiring(n, groups=ALL_GROUPS):
    """USBEndpointMultiplexer with n bare interfaces.  S = the shared (device-side) interface, k = the k-th endpoint-side
    interface.  Every signal that the multiplexer does not drive is a free input."""
    def contract(c):
        m = USBEndpointMultiplexer()
        ifs = [EndpointInterface() for _ in range(n)]
        for i in ifs:
            m.add_interface(i)
        ports = {"s_" + k_: v for k_, v in iface_signals(m.shared).items()}
        for k, i in enumerate(ifs):
            ports.update({f"i{k}_" + k_: v for k_, v in iface_signals(i).items()})
        ts = c.unit(m, ports)
        S = Lazy(ts, iface_signals(m.shared))
        E = [Lazy(ts, iface_signals(i)) for i in ifs]
        R = range(n)
        lem = c.lemma

        def broadcast(name, fields, clause):
            for k in R:
                lem(f"interface{k}_{name}", z3.And(*[E[k][f] == S[f] for f in fields]), clause=clause)

        def or_join(name, fields, clause):
            lem(name, z3.And(*[S[f] == OR(E[k][f] for k in R) for f in fields]), clause=clause)

        if "tokenizer" in groups:
            broadcast("tokenizer_is_shared_tokenizer", ["tokenizer_" + f for f in TOKENIZER_FIELDS],
                      "every endpoint sees the token detector's output unmodified (pid, address, endpoint, new_token, "
                      "ready_for_response, frame, new_frame, is_in/out/setup/ping)")
        if "handshakes_in" in groups:
            broadcast("handshakes_in_is_shared_handshakes_in", ["handshakes_in_" + f for f in HANDSHAKES],
                      "every endpoint sees the handshake detector's strobes unmodified (ack, nak, stall, nyet)")
        if "rx" in groups:
            broadcast("rx_is_shared_rx", ["rx_valid", "rx_next", "rx_payload", "rx_complete", "rx_ready_for_response", "rx_invalid",
                                          "rx_pid_toggle"],
                      "every endpoint sees the receiver's stream, completion / invalid / response-slot strobes and data PID unmodified")
        if "state" in groups:
            broadcast("state_is_shared_state", ["speed", "active_address", "active_config"],
                      "every endpoint sees the device's speed, address and configuration")
        if "crc" in groups:
            broadcast("crc_is_shared_crc", ["data_crc_crc"], "every endpoint sees the CRC unit's output")
            or_join("shared_crc_start_is_or_of_requests", ["data_crc_start"], "the CRC unit is restarted iff some endpoint requests it")
        if "timer" in groups:
            broadcast("timer_is_shared_timer", ["timer_tx_allowed", "timer_tx_timeout", "timer_rx_timeout"],
                      "every endpoint sees the inter-packet timer's three indications unmodified")
            or_join("shared_timer_start_is_or_of_requests", ["timer_start"], "the timer is started iff some endpoint requests it")
        if "clear_halt" in groups:
            joined = OR(E[k]["clear_endpoint_halt_out"] for k in R)
            lem("shared_clear_halt_is_or_of_requests", S["clear_endpoint_halt_out"] == joined,
                clause="the clear-halt record (enable, direction, number) leaving the multiplexer is the OR of the endpoints' records")
            for k in R:
                lem(f"interface{k}_clear_halt_in_is_or_of_all_clear_halt_out", E[k]["clear_endpoint_halt_in"] == joined,
                    clause="every endpoint's clear_endpoint_halt_in.{enable,direction,number} is the OR of all clear_endpoint_halt_out "
                           "records: a completed CLEAR_FEATURE(ENDPOINT_HALT) reaches every endpoint with the number and direction it names")
        if "handshakes_out" in groups:
            or_join("shared_handshakes_out_is_or_of_requests", ["handshakes_out_ack", "handshakes_out_nak", "handshakes_out_stall"],
                    "ACK / NAK / STALL is requested from the handshake generator iff some endpoint requests that same handshake")
        if "commit" in groups:
            or_join("shared_commit_strobes_are_or_of_requests", ["address_changed", "config_changed"],
                    "the address / configuration commit strobe is raised iff some endpoint raises it")
            for k in R:
                for st, val in (("address_changed", "new_address"), ("config_changed", "new_config")):
                    lone = z3.And(E[k][st] == 1, *[E[j][st] == 0 for j in R if j != k])
                    lem(f"lone_{st}_from_{k}_carries_its_value", z3.Implies(lone, S[val] == E[k][val]),
                        clause="the committed value is the one of the endpoint that strobes")
        if "tx" in groups:
            or_join("shared_tx_flags_are_or_of_endpoints", ["tx_valid", "tx_first", "tx_last"],
                    "the transmitter is offered a byte (valid / first / last) iff some endpoint offers one")
            for k in R:
                lem(f"interface{k}_tx_ready_is_shared_tx_ready", E[k]["tx_ready"] == S["tx_ready"],
                    clause="every endpoint sees the transmitter's ready")
                quiet = z3.And(*[E[j]["tx_valid"] == 0 for j in R if j != k])
                lem(f"lone_transmitter_{k}_payload_reaches_the_transmitter",
                    z3.Implies(z3.And(E[k]["tx_valid"] == 1, quiet), z3.And(S["tx_payload"] == E[k]["tx_payload"], S["tx_valid"] == 1)),
                    clause="if exactly one endpoint has tx.valid, the shared payload is that endpoint's payload, whatever the other "
                           "endpoints' payload lines carry (their packet buffers' read ports are not gated by valid)")
                # first/last are OR-joined ungated (utils/bus.py: "expected to be high only with valid"): with that convention
                # for the idle endpoints, the lone transmitter's framing flags pass unchanged
                idle_flags_low = z3.And(*[z3.And(E[j]["tx_first"] == 0, E[j]["tx_last"] == 0) for j in R if j != k])
                lem(f"lone_transmitter_{k}_framing_reaches_the_transmitter",
                    z3.Implies(z3.And(E[k]["tx_valid"] == 1, quiet, idle_flags_low),
                               z3.And(S["tx_first"] == E[k]["tx_first"], S["tx_last"] == E[k]["tx_last"])),
                    clause="... and first/last are that endpoint's (idle endpoints keep first/last low)")
            pid_selection(c, ts, "endpoint_mux_", [E[k]["tx_valid"] for k in R], [E[k]["tx_pid_toggle"] for k in R], S["tx_pid_toggle"],
                          instance_regs(ts, m, deep=True))
        if not c.invs:
            c.inv("no_state_needed", z3.BoolVal(True))
    return contract


def pid_selection(c, ts, prefix, valids, pids, shared_pid, mux_regs):
    """tx_pid_toggle: the PID of the endpoint that has a transmission going (valid now or in the previous cycle).
    mux_regs: [(own name, state variable)] of the flip-flops of the USBEndpointMultiplexer instance and of the modules below it
    (instance_regs), whatever the parent calls the instance."""
    n = len(valids)
    pv = [c.ghost(f"{prefix}tx_valid_1_ago_{k}", 1, init=0) for k in range(n)]
    for k in range(n):
        c.set_next(pv[k], valids[k])
    # whatever register the multiplexer uses to remember "valid one cycle ago" equals the ghost: proposed for every flip-flop
    # of that width in the multiplexer instance and kept only if inductive (Houdini) — no internal or instance name is relied
    # upon (a multiplexer that keeps one flip-flop per interface: each 1-bit register may be any one of the history bits)
    hist = z3.Concat(*reversed(pv)) if n > 1 else pv[0]
    for j, (own_name, var) in enumerate(mux_regs):
        label = f"{prefix}mux_register_{j}_{(own_name or 'anonymous').replace('$', '_')}"
        if var.size() == n:
            c.candidate(f"{label}_is_previous_tx_valid", var == hist)
        elif var.size() == 1 and n > 1:
            for k in range(n):
                c.candidate(f"{label}_is_previous_tx_valid_of_{k}", var == pv[k])
    going = [z3.Or(valids[k] == 1, pv[k] == 1) for k in range(n)]
    for k in range(n):
        lone = z3.And(going[k], *[z3.Not(going[j]) for j in range(n) if j != k])
        c.ensure(f"{prefix}pid_of_lone_transmitter_{k}_selected", z3.Implies(lone, shared_pid == pids[k]),
                 clause="the data PID handed to the transmitter is the tx_pid_toggle of the endpoint whose transmission is going "
                        "(valid now or one cycle ago), whatever the other endpoints' toggles are")
    c.ensure(f"{prefix}no_pid_without_transmitter", z3.Implies(z3.Not(z3.Or(*going)), shared_pid == 0),
             clause="no endpoint transmitting: DATA0 code (nothing selected)")
    c.cover(f"{prefix}second_transmitter_data1" if n > 1 else f"{prefix}transmitter_data1",
            z3.And(going[n - 1], shared_pid == 1), reach=False)


# =========================================================================================================== USBDevice
def descriptors():
    from usb_protocol.emitters import DeviceDescriptorCollection
    d = DeviceDescriptorCollection()
    with d.DeviceDescriptor() as dd:
        dd.idVendor, dd.idProduct = 0x1209, 0x0001
        dd.iManufacturer, dd.iProduct, dd.iSerialNumber = "h", "w", "v"
        dd.bNumConfigurations = 1
    with d.ConfigurationDescriptor() as cd:
        with cd.InterfaceDescriptor() as idesc:
            idesc.bInterfaceNumber = 0
            with idesc.EndpointDescriptor() as e:
                e.bEndpointAddress, e.wMaxPacketSize = 0x81, 8
            with idesc.EndpointDescriptor() as e:
                e.bEndpointAddress, e.wMaxPacketSize = 0x01, 8
    return d


class Dev:
    """The real USBDevice (raw UTMI / ULPI) with a standard control endpoint, a bulk IN and a bulk OUT endpoint."""

    CLOCK = {"utmi": (12e6, True), "ulpi": (60e6, False)}       # (usb-domain clock, full-speed only) — from USBDevice's doc/ctor

    def __init__(self, c, kind):
        from luna.gateware.usb.usb2.device import USBDevice
        from luna.gateware.usb.usb2.endpoints.stream import USBStreamInEndpoint, USBStreamOutEndpoint
        self.kind = kind
        if kind == "utmi":
            self.bus = bus = UTMIInterface()
            d = USBDevice(bus=bus)
            ports = {n_: getattr(bus, n_) for n_ in ("rx_data", "rx_active", "rx_valid", "tx_ready", "tx_valid", "tx_data", "line_state",
                                                     "vbus_valid", "session_valid", "session_end", "rx_error", "host_disconnect",
                                                     "id_digital", "op_mode", "xcvr_select", "term_select")}
        else:
            from amaranth.hdl.rec import Record
            self.bus = bus = Record([('data', [('i', 8), ('o', 8), ('oe', 1)]), ('clk', [('o', 1)]), ('nxt', [('i', 1)]),
                                     ('stp', [('o', 1)]), ('dir', [('i', 1)]), ('rst', [('o', 1)])])
            d = USBDevice(bus=bus, handle_clocking=False)
            ports = {"data_i": bus.data.i, "nxt": bus.nxt.i, "dir": bus.dir.i}
        self.d = d
        self.ce = d.add_standard_control_endpoint(descriptors())
        self.ep_in = USBStreamInEndpoint(endpoint_number=1, max_packet_size=8)
        self.ep_out = USBStreamOutEndpoint(endpoint_number=1, max_packet_size=8)
        d.add_endpoint(self.ep_in)
        d.add_endpoint(self.ep_out)
        self.eps = [("control_ep0", self.ce), ("bulk_in_ep1", self.ep_in), ("bulk_out_ep1", self.ep_out)]
        ports.update({"connect": d.connect, "low_speed_only": d.low_speed_only, "full_speed_only": d.full_speed_only,
                      "speed": d.speed, "reset_detected": d.reset_detected,
                      "in_valid": self.ep_in.stream.valid, "in_payload": self.ep_in.stream.payload, "in_first": self.ep_in.stream.first,
                      "in_last": self.ep_in.stream.last, "in_ready": self.ep_in.stream.ready,
                      "out_ready": self.ep_out.stream.ready, "out_valid": self.ep_out.stream.valid})
        self.ts = ts = c.unit(d, ports)
        self.I, self.O = ts.inputs, ts.outputs
        self.utmi = d.utmi
        one = ts.instance
        self.td, self.hsd, self.hsg = one(USBTokenDetector), one(USBHandshakeDetector), one(USBHandshakeGenerator)
        self.rxr, self.gen, self.crc = one(USBDataPacketReceiver), one(USBDataPacketGenerator), one(USBDataPacketCRC)
        self.epmux, self.txmux = one(USBEndpointMultiplexer), one(UTMIInterfaceMultiplexer)
        self.of = lambda sig: term(ts, sig)
        self.shared_timer, self.token_timer = timers_by_role(ts, self.td)
        # the device's own state registers, by role: what the token detector filters on / what the endpoints are shown
        self.address = device_register(ts, d, [self.epmux.shared.active_address, self.td.address], "address")
        self.configuration = device_register(ts, d, [self.epmux.shared.active_config], "configuration")
        self.E = [Lazy(ts, iface_signals(e.interface)) for _, e in self.eps]
        self.names = [nm for nm, _ in self.eps]


def timers_by_role(ts, td):
    """-> (shared, private): the two USBInterpacketTimer instances of a USBDevice, told apart by ROLE, not by the names or the
    order USBDevice.elaborate gives them: the token detector's private timer is the one built inside the token detector `td`;
    the device's shared timer (users: data receiver, every endpoint) is the other one."""
    timers = ts.instances(USBInterpacketTimer)
    private = [t for t in timers if within(ts, t, td)]
    shared = [t for t in timers if not within(ts, t, td)]
    if len(private) != 1 or len(shared) != 1:
        raise BindingError(f"expected one USBInterpacketTimer inside the token detector and one shared by the device, found "
                           f"{[hier(ts, t) for t in private]} / {[hier(ts, t) for t in shared]}")
    return shared[0], private[0]


def device_register(ts, d, consumers, local_name):
    """A state register that the parent `d` keeps in its own module (USBDevice holds its address and its configuration in
    local Signals of elaborate()).  It is identified by ROLE: the flip-flop of d's own module that directly drives one of
    `consumers` (input ports of real child instances).  Only if no consumer is driven directly by a register of d (a broken
    or restructured connection) the parent's own name for the signal is used."""
    own = [v for _, v in instance_regs(ts, d)]
    for s in consumers:
        try:
            t = ts.of(s)
        except BindingError:
            continue
        for v in own:
            if v.eq(t):
                return v
    return ts.sig(instance_path(ts, d, local_name))


def device_wiring(kind, groups):
    def contract(c):
        D = Dev(c, kind)
        device_groups(c, D, groups)
        if not c.invs:
            c.inv("no_state_needed", z3.BoolVal(True))
    return contract


def device_groups(c, D, groups):
    ts, of, E, names = D.ts, D.of, D.E, D.names
    td, hsd, hsg, rxr, gen, crc = D.td, D.hsd, D.hsg, D.rxr, D.gen, D.crc
    R = range(len(E))
    lem = c.lemma
    speed = D.O["speed"]

    if "tokenizer" in groups:
        for k in R:
            lem(f"{names[k]}_tokenizer_is_token_detector_output",
                z3.And(*[E[k]["tokenizer_" + f] == of(td.interface[f]) for f in TOKENIZER_FIELDS]),
                clause="USBDevice + USBEndpointMultiplexer: every field of the endpoint's tokenizer record is driven by the device's "
                       "token detector (the leaf contracts' `mine` / in_token are computed from the same token for every endpoint)")
        lem("token_detector_sees_device_speed_and_address", z3.And(of(td.speed) == speed, of(td.address) == D.address),
            clause="the token detector's speed input is the device speed, its address filter the device's address register")
        lem("token_detector_listens_to_the_device_utmi_bus", z3.BoolVal(td.utmi is D.utmi and td.filter_by_address is True),
            clause="(instance parameters) the token detector observes the device's own UTMI receive lines and filters by address")
    if "handshakes_in" in groups:
        lem("handshake_detector_listens_to_the_device_utmi_bus", z3.BoolVal(hsd.utmi is D.utmi),
            clause="(instance parameter) the handshake detector observes the device's own UTMI receive lines: token and handshake "
                   "strobes come from the same receive path (the leaf contracts' 'ACK and token strobes never coincide')")
        for k in R:
            lem(f"{names[k]}_handshakes_in_is_handshake_detector_output",
                z3.And(*[E[k]["handshakes_in_" + f] == of(hsd.detected[f]) for f in HANDSHAKES]),
                clause="every endpoint's handshakes_in.{ack,nak,stall,nyet} is the handshake detector's strobe of the same name")
    if "rx" in groups:
        lem("receiver_listens_to_the_device_utmi_bus", z3.BoolVal(rxr.utmi is D.utmi and not rxr.standalone),
            clause="(instance parameters) the data receiver observes the device's own UTMI receive lines and uses the shared CRC unit / timer")
        # the receiver's response timer is the device's shared timer (its timing: C05/USBDevice/wiring_*_timers)
        regs = [v for _, v in instance_regs(ts, D.shared_timer)]
        if len(regs) != 1:
            raise BindingError(f"expected the shared timer instance to hold exactly one register, found {regs}")
        c.ensure("receiver_timer_start_restarts_the_shared_timer", z3.Implies(of(rxr.timer.start) == 1, c.nx(regs[0]) == 0),
                 clause="the inter-packet gap after a received data packet is measured by the device's shared timer")
        lem("receiver_sees_the_shared_timer", z3.And(*[of(rxr.timer[p]) == E[0]["timer_" + p] for p in ("tx_allowed", "tx_timeout", "rx_timeout")]),
            clause="... whose 'response allowed' indication is the one every endpoint sees")
        for k in R:
            lem(f"{names[k]}_rx_is_receiver_output",
                z3.And(E[k]["rx_valid"] == of(rxr.stream.valid), E[k]["rx_next"] == of(rxr.stream.next),
                       E[k]["rx_payload"] == of(rxr.stream.payload), E[k]["rx_complete"] == of(rxr.packet_complete),
                       E[k]["rx_invalid"] == of(rxr.crc_mismatch), E[k]["rx_ready_for_response"] == of(rxr.ready_for_response),
                       E[k]["rx_pid_toggle"] == zx(bits(of(rxr.active_pid), 3), 2)),
                clause="every endpoint's rx stream / rx_complete / rx_invalid / rx_ready_for_response are the data receiver's stream / "
                       "packet_complete / crc_mismatch / ready_for_response, and rx_pid_toggle is bit 3 of the received data PID "
                       "(DATA0 -> 0, DATA1 -> 1)")
    if "state" in groups:
        for k in R:
            lem(f"{names[k]}_sees_device_speed_address_configuration",
                z3.And(E[k]["speed"] == speed, E[k]["active_address"] == D.address, E[k]["active_config"] == D.configuration),
                clause="every endpoint sees the device's current speed, address register and configuration register")
        from luna.gateware.usb.usb2.reset import USBResetSequencer
        lem("device_speed_is_reset_sequencer_speed", speed == of(ts.instance(USBResetSequencer).current_speed),
            clause="the device's speed is the one negotiated by the reset sequencer")
    if "crc" in groups:
        unit_out = of(gen.crc.crc)           # C03 proves gen.crc.crc == inverted, bit-reversed CRC register
        lem("every_crc_user_sees_the_crc_unit_output",
            z3.And(of(rxr.data_crc.crc) == unit_out, *[E[k]["data_crc_crc"] == unit_out for k in R]),
            clause="transmitter, receiver and every endpoint read the same shared CRC16 unit")
        reg = instance_reg(ts, crc, "crc", width=16)      # the CRC unit's own 16-bit register, wherever the device put the unit
        starts = [of(gen.crc.start), of(rxr.data_crc.start)] + [E[k]["data_crc_start"] for k in R]
        for nm, s in zip(["transmitter", "receiver"] + names, starts):
            c.ensure(f"{nm}_crc_start_reseeds_the_crc_unit", z3.Implies(s == 1, c.nx(reg) == 0xFFFF),
                     clause="a start request of any user of the shared CRC unit reseeds it")
        data_in = z3.Or(of(crc.rx_valid) == 1, of(crc.tx_valid) == 1)
        c.ensure("crc_unit_keeps_value_without_start_or_data",
                 z3.Implies(z3.And(z3.Not(z3.Or(*[s == 1 for s in starts])), z3.Not(data_in)), c.nx(reg) == reg),
                 clause="nothing but a user's start or a bus byte changes the CRC register")
        lem("crc_unit_fed_from_the_utmi_bus",
            z3.And(of(crc.rx_data) == of(D.utmi.rx_data), of(crc.rx_valid) == of(D.utmi.rx_valid),
                   of(crc.tx_data) == of(D.txmux.output.data),
                   of(crc.tx_valid) == (of(D.txmux.output.valid) & of(D.utmi.tx_ready))),
            clause="the CRC unit advances on received UTMI bytes and on transmit bytes accepted by the PHY")
    if "clear_halt" in groups:
        joined = OR(E[k]["clear_endpoint_halt_out"] for k in R)
        for k in R:
            lem(f"{names[k]}_clear_halt_in_is_or_of_all_clear_halt_out", E[k]["clear_endpoint_halt_in"] == joined,
                clause="every endpoint's clear_endpoint_halt_in.{enable,direction,number} is the OR of all endpoints' clear_endpoint_halt_out")
            lem(f"{names[k]}_clear_halt_in_is_control_endpoint_clear_halt_out",
                E[k]["clear_endpoint_halt_in"] == E[0]["clear_endpoint_halt_out"],
                clause="in a device whose only control endpoint is endpoint 0, every endpoint sees exactly the enable, direction and "
                       "number the control endpoint's request handler reports for a completed CLEAR_FEATURE(ENDPOINT_HALT)")
        from luna.gateware.usb.request.standard import StandardRequestHandler
        srh = ts.instance(StandardRequestHandler)
        h = of(srh.interface.clear_endpoint_halt.as_value())
        for k in R:
            lem(f"{names[k]}_clear_halt_strobe_comes_from_the_standard_request_handler",
                z3.And(z3.Implies(bits(h, 0) == 1, E[k]["clear_endpoint_halt_in"] == h),
                       z3.Implies(bits(E[k]["clear_endpoint_halt_in"], 0) == 1, E[k]["clear_endpoint_halt_in"] == h)),
                clause="end to end: the strobe an endpoint sees is the StandardRequestHandler's (C14/REQ), with its direction and number")
    if "handshakes_out" in groups:
        lem("handshake_generator_issues_or_of_endpoint_requests",
            z3.And(*[of(getattr(hsg, "issue_" + f)) == OR(E[k]["handshakes_out_" + f] for k in R) for f in ("ack", "nak", "stall")]),
            clause="the handshake generator is asked for ACK / NAK / STALL iff some endpoint requests that same handshake")
    if "tx" in groups:
        st = gen.stream
        lem("transmitter_stream_flags_are_or_of_endpoint_tx",
            z3.And(*[of(st[f]) == OR(E[k]["tx_" + f] for k in R) for f in ("valid", "first", "last")]),
            clause="the data packet generator is offered a byte (valid/first/last) iff some endpoint offers one")
        for k in R:
            lem(f"{names[k]}_tx_ready_is_transmitter_ready", E[k]["tx_ready"] == of(st.ready),
                clause="every endpoint sees the data packet generator's stream.ready")
            quiet = z3.And(*[E[j]["tx_valid"] == 0 for j in R if j != k])
            lem(f"lone_{names[k]}_payload_reaches_the_transmitter",
                z3.Implies(z3.And(E[k]["tx_valid"] == 1, quiet), of(st.payload) == E[k]["tx_payload"]),
                clause="if exactly one endpoint has tx.valid, the byte handed to the data packet generator is that endpoint's "
                       "payload, whatever the other endpoints' buffers show")
        pid_selection(c, ts, "", [E[k]["tx_valid"] for k in R], [E[k]["tx_pid_toggle"] for k in R], of(gen.data_pid),
                      instance_regs(ts, D.epmux, deep=True))
    if "utmi_tx" in groups:
        rs_tx = [i for i in D.txmux._inputs if i is not gen.tx and i is not hsg.tx]
        inputs = [("data_packet_generator", gen.tx), ("handshake_generator", hsg.tx)] + [(f"reset_sequencer_{j}", i) for j, i in enumerate(rs_tx)]
        lem("transmit_mux_has_the_three_transmitters", z3.BoolVal(len(rs_tx) == 1 and any(i is gen.tx for i in D.txmux._inputs)
                                                                   and any(i is hsg.tx for i in D.txmux._inputs)),
            clause="reset sequencer (chirp), data packet generator and handshake generator share the UTMI transmit lines")
        lem("utmi_tx_is_mux_output", z3.And(of(D.utmi.tx_valid) == of(D.txmux.output.valid), of(D.utmi.tx_data) == of(D.txmux.output.data)),
            clause="the UTMI transmit lines carry the multiplexer's output")
        lem("utmi_tx_valid_is_or_of_transmitters", of(D.txmux.output.valid) == OR(of(i.valid) for _, i in inputs),
            clause="the PHY is asked to transmit iff some transmitter has a byte")
        for nm, i in inputs:
            others = z3.And(*[of(j.valid) == 0 for _, j in inputs if j is not i])
            lem(f"lone_{nm}_passes_through_transmit_mux",
                z3.And(z3.Implies(z3.And(of(i.valid) == 1, others), of(D.utmi.tx_data) == of(i.data)), of(i.ready) == of(D.utmi.tx_ready)),
                clause="each packet comes from a single transmitter: with the others idle the UTMI bus carries its bytes; it sees the PHY's tx_ready")
    if "commit" in groups:
        ce = E[0]
        c.ensure("address_register_follows_control_endpoint_commit",
                 c.nx(D.address) == z3.If(D.O["reset_detected"] == 1, bvc(0, 7),
                                          z3.If(ce["address_changed"] == 1, ce["new_address"], D.address)),
                 clause="the address register takes the control endpoint's new_address exactly when it strobes address_changed (bus reset: 0)")
        c.ensure("configuration_register_follows_control_endpoint_commit",
                 c.nx(D.configuration) == z3.If(D.O["reset_detected"] == 1, bvc(0, 8),
                                                z3.If(ce["config_changed"] == 1, ce["new_config"], D.configuration)),
                 clause="the configuration register takes the control endpoint's new_config exactly when it strobes config_changed")
        lem("stream_endpoints_never_commit", z3.And(*[z3.And(E[k]["address_changed"] == 0, E[k]["config_changed"] == 0) for k in R if k != 0]),
            clause="only the control endpoint can change address / configuration")
        token_data = instance_path(ts, td, "token_data")  # the detector's own shift register (an incidental name: probed)
        if ts.has(token_data):
            c.ensure("token_detector_filters_on_the_address_register",
                     z3.Implies(c.nx(of(td.interface.new_token)) == 1, bits(ts.sig(token_data), 6, 0) == D.address),
                     clause="the device's token detector is instantiated with address filtering: a token is reported only if its "
                            "address field equals the device's address register")


# ==================================================================================================== timers in USBDevice
def device_timers(kind):
    """C05 at the users' ports, inside the real USBDevice: the shared USBInterpacketTimer (users: data receiver and, through
    USBEndpointMultiplexer, every endpoint) and the token detector's private timer (user: tokenizer.ready_for_response of every
    endpoint) meet the timing table for the device's own clock and the device's own speed."""
    def contract(c):
        from .c05_interpacket_timer import table
        D = Dev(c, kind)
        ts, of, E, names = D.ts, D.of, D.E, D.names
        R = range(len(E))
        clock, fs_only = Dev.CLOCK[kind]
        tab = table(clock, fs_only)
        top = max(max(v) for sp in tab.values() for v in sp.values())
        W = 12
        speed = D.O["speed"]
        spn = {0: "hs", 1: "fs", 2: "ls"}
        nxt = lambda e: z3.substitute(e, *ts.next_pairs())

        # ---------------- the shared timer: started by the receiver or by any endpoint
        starts = [("receiver", of(D.rxr.timer.start))] + [(names[k], E[k]["timer_start"]) for k in R]
        start = z3.Or(*[s == 1 for _, s in starts])
        since = c.ghost("since_shared_timer_start", W, init=0)
        c.set_next(since, z3.If(start, bvc(0, W), z3.If(since == (1 << W) - 1, since, since + 1)))
        elapsed_time_register(c, ts, D.shared_timer, "shared_timer", since, top, W)
        ref = {p: E[0]["timer_" + p] for p in ("tx_allowed", "tx_timeout", "rx_timeout")}     # as seen by the control endpoint
        timing_table(c, tab, spn, speed, start, since, ref, "shared_timer", "at every endpoint's timer interface")
        c.lemma("all_shared_timer_users_see_the_same_indications",
                z3.And(of(D.rxr.timer.tx_allowed) == ref["tx_allowed"], of(D.rxr.timer.tx_timeout) == ref["tx_timeout"],
                       of(D.rxr.timer.rx_timeout) == ref["rx_timeout"],
                       *[E[k]["timer_" + p] == ref[p] for k in R for p in ref]),
                clause="the data receiver (ready_for_response for OUT/SETUP handshakes) and every endpoint see the same tx_allowed / tx_timeout / rx_timeout")
        c.lemma("shared_timer_runs_at_device_speed", of(D.shared_timer.speed) == speed,
                clause="the shared timer selects its delays with the device's current speed")

        # ---------------- the token detector's private timer: started when a token addressed to the device completes
        td = D.td
        tok_start = nxt(of(td.interface.new_token)) == 1           # the strobe is registered: it is high one cycle after the start
        since_t = c.ghost("since_token", W, init=0)
        c.set_next(since_t, z3.If(tok_start, bvc(0, W), z3.If(since_t == (1 << W) - 1, since_t, since_t + 1)))
        elapsed_time_register(c, ts, D.token_timer, "token_timer", since_t, top, W)
        rfr = E[0]["tokenizer_ready_for_response"]
        for sp, row in tab.items():
            (lo,) = row["min"]
            c.ensure(f"{spn[sp]}_token_response_slot", z3.Implies(speed == sp, (rfr == 1) == (since_t == lo)),
                     clause=f"speed={spn[sp]}: tokenizer.ready_for_response exactly {lo} cycles after the token completed "
                            f"(minimum inter-packet gap at the device's {clock/1e6:g} MHz clock)")
            c.cover(f"{spn[sp]}_token_response_slot", z3.And(speed == sp, rfr == 1), reach=False)
        c.lemma("every_endpoint_sees_the_token_response_slot",
                z3.And(*[E[k]["tokenizer_ready_for_response"] == rfr for k in R]),
                clause="every endpoint sees the same tokenizer.ready_for_response")
    return contract


def elapsed_time_register(c, ts, timer, label, since, top, W):
    """abstraction: the timer instance's counter is the elapsed time, saturated somewhere above the largest delay of the table.
    Proposed for every flip-flop of the real timer instance `timer` (wherever it sits in the hierarchy and whatever its parent
    calls it) and kept if inductive — neither the instance's nor the register's name is used."""
    n = 0
    for j, (own_name, var) in enumerate(instance_regs(ts, timer)):
        if var.size() <= W:
            c.candidate(f"{label}_{(own_name or f'register_{j}').replace('$', '_')}_is_elapsed_time",
                        z3.Or(zx(var, W) == since, z3.And(z3.UGT(since, top), z3.UGT(zx(var, W), top))))
            n += 1
    if not n:
        raise BindingError(f"no flip-flop found in the {label} instance ({'.'.join(hier(ts, timer))})")


def timing_table(c, tab, spn, speed, start, since, port, label, where):
    for sp, row in tab.items():
        nm = spn[sp]
        for key, p in (("min", "tx_allowed"), ("max", "tx_timeout"), ("to", "rx_timeout")):
            vals = sorted(row[key])
            if len(vals) == 1:
                c.ensure(f"{nm}_{label}_{p}", z3.Implies(speed == sp, (port[p] == 1) == (since == vals[0])),
                         clause=f"speed={nm}: {p} {where} exactly {vals[0]} cycles after the most recent start")
            else:
                lo, hi = vals
                c.ensure(f"{nm}_{label}_{p}_only_at_{lo}_or_{hi}",
                         z3.Implies(z3.And(speed == sp, port[p] == 1), z3.Or(since == lo, since == hi)),
                         clause=f"speed={nm}: {p} {where} only {lo} or {hi} cycles after the most recent start (6.5 bit times)")
                c.ensure(f"{nm}_{label}_{p}_exactly_once",
                         z3.Implies(z3.And(speed == sp, since == lo, z3.Not(start), c.nx(speed) == sp),
                                    (port[p] == 1) != (c.nx(port[p]) == 1)),
                         clause=f"speed={nm}: {p} {where} raised at exactly one of the two cycle counts")
            c.cover(f"{nm}_{label}_{p}", z3.And(speed == sp, port[p] == 1), reach=False)
