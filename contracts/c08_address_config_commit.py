"""C08 — address and configuration change only when their request completes.

Two units, composed assume/guarantee-wise on the EndpointInterface of the control endpoint:

 (A) `USBControlEndpoint` + real `StandardRequestHandler` (luna/gateware/usb/request/control.py
     `handle_register_write_request`, request/standard.py): when are the strobes `address_changed` / `config_changed`
     raised, and with which value.
     Spec-side ghost `await_ack`: "this endpoint has answered the IN status stage of the current request with a zero-length
     packet, and nothing else has happened on the bus since" — set when a ZLP is sent at a status-stage opportunity,
     cleared by any new token (a token starts another transaction), by the ACK itself and by a new setup packet.
     An ACK strobe *belongs to the status stage of this request* iff `await_ack` holds; every other ACK the endpoint
     observes (handshakes are broadcast to all endpoints) belongs to some other transaction.
        address_changed  <=>  current request is SET_ADDRESS  and  ACK observed  and  await_ack;  new_address = wValue[6:0]
        config_changed   <=>  current request is SET_CONFIGURATION and ACK and await_ack;         new_config  = wValue[7:0]
     "exactly once": the ACK clears `await_ack`, so a second ACK (or any later ACK without a new status-stage ZLP) does nothing.

 (B) `USBDevice` (raw UTMI bus, standard control endpoint + a bulk IN endpoint on EP1): the registers.
        address'       = 0 on bus reset, else new_address of the control endpoint if it strobes address_changed, else unchanged
        configuration' = likewise
        the token detector filters on, and the endpoints see, exactly these registers (old address until the commit).
     Endpoints other than the control endpoint never drive the strobes (their ACKs cannot trigger a change).

 (wiring) USBControlEndpoint/wiring_commit_acm: on the real control endpoint with three real handlers (standard + ACM + stall)
     the endpoint's address_changed / new_address / config_changed / new_config / clear_endpoint_halt_out are the claiming
     handler's lines (each its own, through the real multiplexer), and every handler sees the device's active_config and
     handshakes_in (c10_unsupported_requests_stall.control_endpoint_obligations).
"""
import z3
from hwv.contract import B, bvc, bits, bv1, zx
from luna.gateware.usb.usb2.device import USBDevice
from luna.gateware.usb.usb2.endpoints.stream import USBStreamInEndpoint
from luna.gateware.interface.utmi import UTMIInterface
from . import spec
from .c10_unsupported_requests_stall import (ControlEndpointEnv, small_descriptors, ST_SETUP, ST_STATUS_IN, ST_STATUS_OUT,
                                             TYPE_STANDARD, REQ_SET_ADDRESS, REQ_SET_CONFIGURATION, REQ_CLEAR_FEATURE)

LEVEL = "proof"


def strobes(c):
    env = ControlEndpointEnv(c, handlers="standard", ep=0)
    ts, I, O = env.ts, env.I, env.O
    env.stage_invariants()
    stage = env.stage
    h = env.handler_fsm()
    n = c.nx
    current = z3.Not(env.received)
    std = env.f_type == TYPE_STANDARD
    ack = I["hin_ack"] == 1

    # ---- spec-side: has the status stage of the current request been answered with a ZLP, with nothing on the bus since?
    await_ack = c.ghost("await_ack", 1, init=0)
    env.transfer_invariants()
    in_with_data = env.in_with_data
    # the IN status stage (requests without an IN data stage; SET_ADDRESS / SET_CONFIGURATION have no data stage at all)
    zlp_now = z3.And(env.status_due, stage == ST_STATUS_IN, O["tx_valid"] == 1, O["tx_first"] == 0, O["tx_last"] == 1)
    c.set_next(await_ack, z3.If(z3.Or(env.new_token, env.received), bvc(0, 1),
                                z3.If(z3.And(ack, await_ack == 1), bvc(0, 1),
                                      z3.If(zlp_now, bvc(1, 1), await_ack))))
    # SET_ADDRESS / SET_CONFIGURATION as defined by USB 2.0 §9.4: no IN data stage, so the status stage is an IN
    well_formed = z3.Not(in_with_data)
    is_set_address = z3.And(std, env.f_request == REQ_SET_ADDRESS, well_formed)
    is_set_config = z3.And(std, env.f_request == REQ_SET_CONFIGURATION, well_formed)

    # ---- abstraction map: handler FSM state serves the current request; its "status sent" flags are the ghost
    c.inv("await_ack_only_in_status_stage",
          z3.Implies(await_ack == 1, z3.And(current, std, stage == ST_STATUS_IN,
                                            h.is_("SET_ADDRESS", "SET_CONFIGURATION", "CLEAR_FEATURE"))))
    regs = {str(v): v for v in ts.state.values()}
    for rn, st_name in (("status_sent", "SET_ADDRESS"), ("status_sent$2", "SET_CONFIGURATION"),
                        ("clear_feature_status_sent", "CLEAR_FEATURE")):
        if ts.has_reg("StandardRequestHandler." + rn):
            sent = regs["StandardRequestHandler." + rn] == 1
            c.inv(f"{rn}_is_await_ack".replace("$", "_"),
                  z3.And(z3.Implies(sent, z3.And(std, current, h.is_(st_name), z3.Or(stage == ST_STATUS_IN, stage == ST_STATUS_OUT))),
                         z3.Implies(stage != ST_STATUS_OUT, sent == z3.And(await_ack == 1, h.is_(st_name)))))

    # ---- ensures
    c.ensure("address_changed_iff_own_status_stage_acked",
             z3.Implies(z3.And(current, well_formed), (O["address_changed"] == 1) == z3.And(is_set_address, ack, await_ack == 1)),
             clause="SET_ADDRESS takes effect exactly once, only after the host has acknowledged the status stage of that same "
                    "request; handshakes belonging to other endpoints' transactions never trigger the change")
    c.ensure("new_address_is_low_7_bits_of_wvalue", z3.Implies(O["address_changed"] == 1, O["new_address"] == bits(env.f_value, 6, 0)),
             clause="with the value carried in the request (address = low 7 bits of wValue)")
    c.ensure("config_changed_iff_own_status_stage_acked",
             z3.Implies(z3.And(current, well_formed), (O["config_changed"] == 1) == z3.And(is_set_config, ack, await_ack == 1)),
             clause="SET_CONFIGURATION takes effect exactly once, only after the host has acknowledged the status stage of that "
                    "same request; other transactions' handshakes never trigger it")
    c.ensure("new_config_is_wvalue", z3.Implies(O["config_changed"] == 1, O["new_config"] == bits(env.f_value, 7, 0)),
             clause="with the value carried in the request")
    c.ensure("no_change_while_request_is_being_reported",
             z3.Implies(env.received, z3.And(O["address_changed"] == 0, O["config_changed"] == 0)),
             clause="(frame) nothing is committed in the cycle a new setup packet is reported")
    c.ensure("only_the_named_request_commits",
             z3.And(z3.Implies(O["address_changed"] == 1, z3.And(std, env.f_request == REQ_SET_ADDRESS, ack)),
                    z3.Implies(O["config_changed"] == 1, z3.And(std, env.f_request == REQ_SET_CONFIGURATION, ack))),
             clause="(also for malformed requests that declare an IN data stage) only SET_ADDRESS changes the address, only "
                    "SET_CONFIGURATION the configuration, and only when an ACK is observed")
    c.ensure("exactly_once", z3.Implies(z3.Or(O["address_changed"] == 1, O["config_changed"] == 1), n(await_ack) == 0),
             clause="exactly once: after the commit a further ACK does nothing until a new status stage has been answered")
    c.ensure("awaited_ack_is_a_status_stage_ack", z3.Implies(z3.And(await_ack == 1), z3.Or(is_set_address, is_set_config,
                                                              z3.And(std, env.f_request == REQ_CLEAR_FEATURE))),
             clause="(the awaited ACK is that of a status stage this endpoint answered for SET_ADDRESS / SET_CONFIGURATION / CLEAR_FEATURE)")

    c.cover("address_committed", O["address_changed"] == 1)
    c.cover("config_committed", O["config_changed"] == 1)
    c.cover("foreign_ack_while_set_address_pending", z3.And(is_set_address, current, ack, await_ack == 0, h.is_("SET_ADDRESS")))
    c.cover_depth = 30
    c.bmc_depth = 48


def device(c):
    utmi = UTMIInterface()
    d = USBDevice(bus=utmi)
    ce = d.add_standard_control_endpoint(small_descriptors())
    ep1 = USBStreamInEndpoint(endpoint_number=1, max_packet_size=64)
    d.add_endpoint(ep1)
    ports = {"rx_data": utmi.rx_data, "rx_active": utmi.rx_active, "rx_valid": utmi.rx_valid, "tx_ready": utmi.tx_ready,
             "line_state": utmi.line_state, "vbus_valid": utmi.vbus_valid, "session_valid": utmi.session_valid,
             "session_end": utmi.session_end, "rx_error": utmi.rx_error, "host_disconnect": utmi.host_disconnect,
             "id_digital": utmi.id_digital,
             "connect": d.connect, "low_speed_only": d.low_speed_only, "full_speed_only": d.full_speed_only,
             "s_valid": ep1.stream.valid, "s_payload": ep1.stream.payload, "s_first": ep1.stream.first, "s_last": ep1.stream.last,
             "reset_detected": d.reset_detected}
    ts = c.unit(d, ports)
    I, O = ts.inputs, ts.outputs
    n = c.nx
    # the device's own state registers are local Signals of USBDevice.elaborate(): they are identified by ROLE (the register of
    # the device's own module that drives the token detector's address filter / the endpoint multiplexer's shared
    # active_address / active_config ports), the children by class -- not by local-variable or submodule names
    from luna.gateware.usb.usb2.packet import USBTokenDetector
    from luna.gateware.usb.usb2.endpoint import USBEndpointMultiplexer
    from .w1_usb2_glue import device_register
    td, epmux = ts.instance(USBTokenDetector), ts.instance(USBEndpointMultiplexer)
    address = device_register(ts, d, [epmux.shared.active_address, td.address], "address")          # the 7-bit register
    configuration = device_register(ts, d, [epmux.shared.active_config], "configuration")
    bus_reset = O["reset_detected"] == 1                       # = reset_sequencer.bus_reset (device output)
    ci = ce.interface
    addr_strobe, new_addr = ts.of(ci.address_changed) == 1, ts.of(ci.new_address)
    cfg_strobe, new_cfg = ts.of(ci.config_changed) == 1, ts.of(ci.new_config)
    c.ensure("address_register_update",
             n(address) == z3.If(bus_reset, bvc(0, 7), z3.If(addr_strobe, new_addr, address)),
             clause="the address changes only by a bus reset (to 0) or by the control endpoint's commit strobe (to the committed value); "
                    "until then the device keeps its old address")
    c.ensure("configuration_register_update",
             n(configuration) == z3.If(bus_reset, bvc(0, 8), z3.If(cfg_strobe, new_cfg, configuration)),
             clause="the configuration changes only by a bus reset (to 0) or by the control endpoint's commit strobe")
    c.ensure("bus_reset_clears_both", z3.Implies(bus_reset, z3.And(n(address) == 0, n(configuration) == 0)),
             clause="a bus reset returns the device to address 0 and configuration 0")
    c.ensure("tokens_filtered_on_the_register", ts.of(td.address) == address,
             clause="until the commit the device keeps responding at its old address (the token detector filters on the register)")
    c.ensure("endpoints_see_the_registers",
             z3.And(ts.of(ci.active_config) == configuration, ts.of(ep1.interface.active_config) == configuration,
                    ts.of(ci.active_address) == address),
             clause="endpoints observe exactly the committed address / configuration")
    c.ensure("other_endpoints_never_commit",
             z3.And(ts.of(ep1.interface.address_changed) == 0, ts.of(ep1.interface.config_changed) == 0),
             clause="handshakes belonging to other endpoints' transactions never trigger these changes (a stream endpoint never "
                    "drives the commit strobes)")
    c.inv("trivial", z3.BoolVal(True))
    c.cover("bus_reset", bus_reset, reach=False)
    c.cover("address_nonzero", address != 0, reach=False)


def contracts(tier):
    yield ("USBControlEndpoint", "standard_ep0", strobes)
    from .c10_unsupported_requests_stall import make_control_endpoint_wiring
    yield ("USBControlEndpoint", "wiring_commit_acm", make_control_endpoint_wiring("acm", {"commit", "handlers"}, ep=0))
    yield ("USBDevice", "utmi_control_plus_bulk_in", device)
    # caller side: commit strobes / values through the real multiplexer, registers back to every endpoint and the token detector
    from .w1_usb2_glue import device_wiring as glue, mux_wiring
    yield ("USBEndpointMultiplexer", "wiring_3_interfaces", mux_wiring(3, ("commit", "state")))
    yield ("USBDevice", "wiring_utmi", glue("utmi", ("commit", "state", "tokenizer")))
    if tier != "quick":
        yield ("USBDevice", "wiring_ulpi", glue("ulpi", ("commit", "state", "tokenizer")))
