"""C39 — header transmission respects credits and retransmits unacknowledged headers (PacketTransmitter).

Unit: the real PacketTransmitter (credit / sequence / retirement / retry logic, header buffers, dispatch FSM).  Its two
submodules are used through their contracts: while elaborating, `RawPacketTransmitter` and `LinkCommandDetector` in
luna.gateware.usb.usb3.link.transmitter are bound to subclasses with an empty elaborate(), so `packet_tx.done` and the detector's
new_command / command / subtype become free inputs:
  * LinkCommandDetector (C35): any sequence of (new_command, command, subtype) reports — "all partner link-command histories";
  * RawPacketTransmitter (C36): a packet starts when `generate` is seen while idle, it transmits the header presented in that
    cycle (latched), and `done` is raised exactly once at the end of a packet in progress (never in the start cycle).
Headers on the wire are therefore observed at the packet_tx call interface: (start cycle, packet_tx.header in that cycle).

Spec side (ghosts driven by ports and the two call interfaces only): counters of in-order credits received, headers accepted
from the queue, headers retired, the index `rd` of the next header to (re)transmit, the sequence base advertised by the partner,
`retry_from/retry_to` = the index range that was unacknowledged at the last LBAD, and a witness header (k-th accepted).

Assumptions: link up (enable = 1); the partner never advertises more credits than it has header buffers (credits issued minus
headers it acknowledged <= 4) — otherwise the 4-entry buffer and the 3-bit credit counter cannot hold what the statement asks.
"""
import contextlib
import z3
from amaranth import Module, Signal
from hwv.contract import B, bvc, bits, bv1, zx
import luna.gateware.usb.usb3.link.transmitter as tx_mod
from luna.gateware.usb.usb3.link.header import HeaderPacket
from .c37_header_receive import HDR_FIELDS, rec_bits, cases, LGOOD, LCRD, LRTY, LBAD

N = 4


@contextlib.contextmanager
def open_submodules():
    pre = {"done": Signal(name="ptx_done"), "new_command": Signal(name="det_new_command"),
           "command": Signal(4, name="det_command"), "subtype": Signal(4, name="det_subtype")}
    made = {"ptx": [], "det": [], "records": []}

    class OpenRawTransmitter(tx_mod.RawPacketTransmitter):
        def __init__(self, *a, **k):
            super().__init__(*a, **k)
            self.done = pre["done"]
            made["ptx"].append(self)

        def elaborate(self, platform):
            return Module()

    class OpenDetector(tx_mod.LinkCommandDetector):
        def __init__(self, *a, **k):
            super().__init__(*a, **k)
            self.new_command, self.command, self.subtype = pre["new_command"], pre["command"], pre["subtype"]
            made["det"].append(self)

        def elaborate(self, platform):
            return Module()

    class RecordingHeaderPacket(HeaderPacket):
        def __init__(self):
            super().__init__()
            made["records"].append(self)

    old = tx_mod.RawPacketTransmitter, tx_mod.LinkCommandDetector, tx_mod.HeaderPacket
    tx_mod.RawPacketTransmitter, tx_mod.LinkCommandDetector, tx_mod.HeaderPacket = OpenRawTransmitter, OpenDetector, RecordingHeaderPacket
    try:
        yield pre, made
    finally:
        tx_mod.RawPacketTransmitter, tx_mod.LinkCommandDetector, tx_mod.HeaderPacket = old


def transmitter(c):
    with open_submodules() as (pre, made):
        d = tx_mod.PacketTransmitter()
        q = d.queue
        ports = {"enable": d.enable, "bringup_complete": d.bringup_complete, "queue_valid": q.valid, "queue_ready": q.ready,
                 "retry_received": d.retry_received, "retry_required": d.retry_required, "lrty_pending": d.lrty_pending,
                 "recovery_required": d.recovery_required, "credits_available": d.credits_available, "packets_to_send": d.packets_to_send,
                 "ptx_done": pre["done"], "det_new_command": pre["new_command"], "det_command": pre["command"], "det_subtype": pre["subtype"]}
        for f, _ in HDR_FIELDS:
            ports["queue_" + f] = getattr(q.header, f)
        ts = c.unit(d, ports)
    c.functions.append("callee contracts: RawPacketTransmitter (C36), LinkCommandDetector (C35)")
    I, O, of, S = ts.inputs, ts.outputs, ts.of, ts.sig
    ptx = made["ptx"][0]
    # HeaderPacket() instances created by PacketTransmitter.__init__/elaborate, in order: ... the N buffers are the records made in elaborate()
    # ... the N buffers are the ones that are *registers* in the netlist (every field flip-flop backed), in creation order;
    # further HeaderPacket records a refactoring may introduce as named combinational views are not buffers
    ffs = {id(sg) for sg in ts.ff_signal.values()}
    is_reg = lambda r: all(id(sg) in ffs for sg in r.fields.values() if sg in ts.nl.signals) and \
        any(sg in ts.nl.signals for sg in r.fields.values())
    bufs = [r for r in made["records"] if r is not ptx.header and is_reg(r)]
    if len(bufs) != N:
        from hwv.contract import BindingError
        raise BindingError(f"expected {N} registered HeaderPacket buffers in PacketTransmitter, found {len(bufs)}")
    c.require("link_up", I["enable"] == 1, why="C39 is about the link in U0 (enable held); re-entry is the subject of C38")
    newcmd = I["det_new_command"] == 1
    cmd, sub = I["det_command"], I["det_subtype"]
    is_ = lambda code: z3.And(newcmd, cmd == code)
    done = I["ptx_done"] == 1
    generate = of(ptx.generate) == 1
    tx_hdr = {f: of(getattr(ptx.header, f)) for f, _ in HDR_FIELDS}
    accept = z3.And(I["queue_valid"] == 1, O["queue_ready"] == 1)

    # ---- spec state
    bring = c.ghost("bringup", 1)
    base = c.ghost("first_sequence_number", 3)            # advertised number + 1: the number of the first header we send
    n_lcrd = c.ghost("credits_received", 16)
    n_acc = c.ghost("headers_accepted", 16)
    n_ret = c.ghost("headers_retired", 16)
    rd = c.ghost("next_to_transmit", 16)                  # index of the header the next transmission carries
    busy = c.ghost("packet_in_progress", 1)
    fresh = c.ghost("packet_started_after_last_lbad", 1)  # the packet in progress was started after the most recent LBAD
    cur_delayed = c.ghost("packet_in_progress_is_delayed", 1)
    retry_to = c.ghost("retry_to", 16)                    # headers with index < retry_to were unacknowledged at the last LBAD ...
    retrying = c.ghost("retrying", 1)                     # ... and have not all been retransmitted since
    advert = z3.And(is_(LGOOD), bring == 0)
    credit = z3.And(is_(LCRD), sub == zx(bits(n_lcrd, 1, 0), 4))
    ack = z3.And(is_(LGOOD), bring == 1, sub == zx(base + bits(n_ret, 2, 0), 4))                     # LGOOD carrying the oldest unretired number
    lbad = is_(LBAD)
    start = z3.And(generate, busy == 0)
    complete = z3.And(done, fresh == 1, z3.Not(lbad))     # the packet in progress completes and counts as (re)transmitted
    c.set_next(bring, z3.If(advert, bvc(1, 1), bring))
    c.set_next(base, z3.If(advert, bits(sub, 2, 0) + 1, base))
    c.set_next(n_lcrd, z3.If(credit, n_lcrd + 1, n_lcrd))
    c.set_next(n_acc, z3.If(accept, n_acc + 1, n_acc))
    c.set_next(n_ret, z3.If(ack, n_ret + 1, n_ret))
    c.set_next(rd, cases((lbad, n_ret), (complete, rd + 1), default=rd))
    c.set_next(busy, cases((done, bvc(0, 1)), (start, bvc(1, 1)), default=busy))
    c.set_next(fresh, cases((lbad, bvc(0, 1)), (start, bvc(1, 1)), default=fresh))
    c.set_next(cur_delayed, z3.If(start, tx_hdr["delayed"], cur_delayed))
    c.set_next(retry_to, z3.If(lbad, n_acc, retry_to))
    c.set_next(retrying, cases((lbad, bvc(1, 1)), (z3.And(complete, retrying == 1, rd + 1 == n_acc), bvc(0, 1)), default=retrying))
    # witness header
    k = c.rigid("k", 16)
    v = c.ghost("kth_header", 128)
    q_hdr = z3.Concat(*[(zx(base + bits(n_acc, 2, 0), 3) if f == "sequence_number" else I["queue_" + f]) for f, _ in reversed(HDR_FIELDS)])
    c.set_next(v, z3.If(z3.And(accept, n_acc == k), q_hdr, v))

    # ---- environment (callee contracts, partner)
    c.require("raw_transmitter_contract", z3.Implies(done, busy == 1),
              why="RawPacketTransmitter (C36): done is raised only at the end of a packet in progress, never in the cycle it starts")
    c.require("partner_acknowledges_only_received_headers", z3.Implies(ack, rd != n_ret),
              why="an LGOOD with the number of the oldest unretired header arrives only after that header has been completely "
                  "(re)transmitted since the last LBAD: the partner cannot acknowledge a header it has not received, and sends no "
                  "LGOOD between its LBAD and our retransmission (USB 3.2 §7.2.4.1.1/4)")
    c.require("partner_has_four_header_buffers", z3.Implies(credit, z3.ULT(n_lcrd - n_ret, N)),
              why="the partner returns a credit only for a header buffer it has freed: credits issued minus headers it has acknowledged "
                  "never exceeds its four buffers (USB 3.2 §7.2.4.1)")

    # ---- abstraction map
    fsm = ts.fsm("fsm_state")
    c.inv("fsm_legal", fsm.legal())
    c.inv("bringup_flag", O["bringup_complete"] == bring)
    c.inv("credit_counter", z3.And(zx(O["credits_available"], 16) == n_lcrd - n_acc, z3.ULE(n_lcrd - n_acc, N), z3.ULE(n_lcrd - n_ret, N),
                                   S("next_expected_credit") == bits(n_lcrd, 1, 0)))
    c.inv("nothing_before_bringup", z3.Implies(bring == 0, z3.And(n_acc == 0, n_ret == 0, rd == 0, busy == 0)))
    c.inv("retired_le_transmit_le_accepted", z3.And(z3.ULE(n_acc - n_ret, N), z3.ULE(rd - n_ret, n_acc - n_ret)))
    c.inv("queue_counters", z3.And(zx(S("packets_awaiting_ack"), 16) == n_acc - n_ret, zx(O["packets_to_send"], 16) == n_acc - rd))
    c.inv("pointers", z3.And(S("write_pointer") == bits(n_acc, 1, 0), S("read_pointer") == bits(rd, 1, 0), S("ack_pointer") == bits(n_ret, 1, 0)))
    c.inv("sequence_registers", z3.Implies(bring == 1, z3.And(S("transmit_sequence_number") == base + bits(n_acc, 2, 0),
                                                              S("next_expected_ack_number") == base + bits(n_ret, 2, 0))))
    D, WS, WR = fsm.is_("DISPATCH_PACKET"), fsm.is_("WAIT_FOR_SEND"), fsm.is_("WAIT_FOR_RETRY")
    c.inv("dispatch_means_idle", z3.Implies(D, busy == 0))
    c.inv("send_state", z3.Implies(WS, z3.And(bring == 1,
                                              z3.BoolVal(True))))
    c.inv("waiting_states_have_a_header_to_send", z3.Implies(z3.Or(WS, WR), z3.ULT(rd - n_ret, n_acc - n_ret)))
    c.inv("retry_flag", S("retry_pending") == retrying)
    c.inv("send_state_retry", z3.Implies(WS, z3.And(z3.Implies(busy == 0, retrying == 0),
                                                    z3.Implies(busy == 1, (retrying == 1) == (fresh == 0)))))
    if ts.has("packet_in_flight"):
        c.inv("in_flight_registers", z3.And(S("packet_in_flight") == busy, (S("packet_superseded") == 1) == z3.And(busy == 1, fresh == 0)))
    c.inv("superseded_packet_means_restart_from_oldest", z3.Implies(z3.And(busy == 1, fresh == 0), z3.And(rd == n_ret, retrying == 1)))
    c.inv("retry_state", z3.Implies(WR, retrying == 1))
    inside = z3.ULT(k - n_ret, n_acc - n_ret)
    buf = [rec_bits(b, of) for b in bufs]
    sel = lambda idx: cases(*[(idx == i, buf[i]) for i in range(N - 1)], default=buf[N - 1])
    c.inv("witness_sits_in_its_buffer", z3.Implies(inside, sel(bits(k, 1, 0)) == v))
    seq_pos = sum(w for f, w in HDR_FIELDS[:HDR_FIELDS.index(("sequence_number", 3))])
    c.inv("witness_sequence_number", z3.Implies(inside, z3.And(bits(v, seq_pos + 2, seq_pos) == base + bits(k, 2, 0), bring == 1)))

    # ---- ensures
    credits = n_lcrd - n_acc
    c.ensure("new_header_accepted_only_with_unused_credit", (O["queue_ready"] == 1) == z3.And(bring == 1, credits != 0),
             clause="The link transmits a new header packet only while the partner has advertised an unused credit (a header is taken "
                    "from the protocol layer iff the link is brought up and credits received exceed headers taken)")
    c.ensure("only_accepted_headers_are_transmitted", z3.Implies(start, z3.ULT(rd - n_ret, n_acc - n_ret)),
             clause="transmits a new header packet only while ... credit: every transmission carries a header that was accepted "
                    "(against a credit) and is not yet retired")
    tx_bits = z3.Concat(*[tx_hdr[f] for f, _ in reversed(HDR_FIELDS)])
    dl_pos = sum(w for f, w in HDR_FIELDS[:HDR_FIELDS.index(("delayed", 1))])
    dl_mask = ~z3.BitVecVal(1 << dl_pos, 128)
    c.ensure("numbered_consecutively_from_the_advertised_sequence", z3.Implies(z3.And(start, rd == k), tx_hdr["sequence_number"] == base + bits(k, 2, 0)),
             clause="numbers headers consecutively from the partner's advertised sequence (for every k: the k-th accepted header carries "
                    "advertised+1+k, also when it is retransmitted; k is an arbitrary fixed index)")
    c.ensure("transmitted_header_is_the_accepted_one", z3.Implies(z3.And(start, rd == k), (tx_bits & dl_mask) == (v & dl_mask)),
             clause="(the header transmitted for index k is the k-th header accepted from the queue, unchanged except for the delayed flag)")
    c.ensure("retired_only_by_lgood_with_its_number", (c.nx(n_ret) != n_ret) == ack,
             clause="retires a header only on an LGOOD carrying its sequence number")
    c.ensure("retire_register_follows", z3.And(c.nx(S("ack_pointer")) == bits(c.nx(n_ret), 1, 0),
                                               zx(c.nx(S("packets_awaiting_ack")), 16) == c.nx(n_acc) - c.nx(n_ret)),
             clause="retires a header only on an LGOOD carrying its sequence number (the retirement pointer / unretired count move only then)")
    c.ensure("after_lbad_resume_from_oldest_unacknowledged", z3.Implies(lbad, z3.And(c.nx(rd) == n_ret, c.nx(retry_to) == n_acc)),
             clause="after an LBAD retransmits every unacknowledged header in order ... (transmission resumes at the oldest unretired header)")
    c.ensure("retransmissions_carry_the_delayed_flag", z3.Implies(z3.And(start, retrying == 1), tx_hdr["delayed"] == 1),
             clause="... with the delayed flag set before sending new ones (from the LBAD until every header accepted so far has been "
                    "retransmitted, each transmission carries DL)")
    c.ensure("retry_ends_only_when_everything_was_retransmitted", z3.Implies(z3.And(retrying == 1, c.nx(retrying) == 0),
             z3.And(complete, rd + 1 == n_acc)),
             clause="after an LBAD retransmits every unacknowledged header ... before sending new ones (the retry phase ends only when a "
                    "retransmission completes and no accepted header remains to be sent)")
    c.ensure("transmissions_in_index_order", z3.Implies(z3.Not(lbad), z3.Or(c.nx(rd) == rd, z3.And(c.nx(rd) == rd + 1, complete))),
             clause="in order ... before sending new ones (the transmit index only steps to the next header, when a packet started after "
                    "the last LBAD completes)")
    c.cover("retry_two_headers", z3.And(retrying == 1, start, rd == n_ret + 1))
    c.cover("retire", z3.And(ack, n_ret == 1))
    c.cover("lbad_during_retransmission", z3.And(lbad, retrying == 1, busy == 1))
    c.cover("credit_exhausted", z3.And(bring == 1, credits == 0, I["queue_valid"] == 1))
    c.cover_depth = 30
    c.timeout_s = max(c.timeout_s, 240)


# ===================================================================================== wiring (caller-side obligations)
def lemmas_headers_reach_the_transmitter(c, U):
    """USB3LinkLayer: the protocol layer's header queue and the data packet transmitter's header queue are merged (HeaderQueueArbiter)
    into PacketTransmitter.queue."""
    from .c46_ss_in_endpoint import header_arbiter_path
    header_arbiter_path(c, U.ts, U.hp_mux, [("protocol_layer", U.d.header_sink), ("data_packet_transmitter", U.data_tx.header_source)],
                        U.ptx.queue, "hq")


def lemmas_packets_reach_the_phy(c, U):
    """PacketTransmitter / USB3LinkLayer: the RawPacketTransmitter's stream is the transmitter's source, input 3 of the transmit arbiter;
    its payload comes from the data packet transmitter."""
    from .c46_ss_in_endpoint import stream_same, raw_stream_to_phy, TX_STREAM
    ts, S = U.ts, U.S
    c.lemma("payload_of_raw_transmitter_is_data_packet_transmitter_output",
            z3.And(stream_same(ts, U.raw_tx.data_sink, U.data_tx.data_source, TX_STREAM), S(U.data_tx.data_source.ready, U.raw_tx.data_sink.ready),
                   stream_same(ts, U.ptx.data_sink, U.data_tx.data_source, TX_STREAM)),
            clause="a data header is followed by its payload: RawPacketTransmitter.data_sink (inside PacketTransmitter) is the "
                   "DataPacketTransmitter's data_source (valid, payload, first, last; ready back)")
    raw_stream_to_phy(c, ts, U.arb, 3, U.ptx.source, U.raw_tx.source, "packet_transmitter", U.phy, "hp")


def link_layer_transmitter_wiring(c):
    from .c37_header_receive import LinkLayerUnits, lemmas_enable_and_reset, lemmas_receive_stream, as_bit
    U = LinkLayerUnits(c)
    of, S, ptx, hrx, det = U.of, U.S, U.ptx, U.hrx, U.det
    lemmas_enable_and_reset(c, U, ptx, "packet_transmitter", "(require link_up) the link in U0")
    lemmas_receive_stream(c, U, [("packet_transmitter", ptx.sink), ("link_command_detector", det.sink)],
                          clause="All partner link-command histories: the link command detector inside PacketTransmitter sees the physical "
                                 "layer's receive stream")
    lemmas_headers_reach_the_transmitter(c, U)
    lemmas_packets_reach_the_phy(c, U)
    c.lemma("transmitter_waits_for_our_lrty", S(ptx.lrty_pending, hrx.lrty_pending),
            clause="after an LBAD retransmits ...: retransmission starts once the receiver has sent the LRTY (lrty_pending is the receiver's)")
    c.lemma("receiver_is_told_to_send_lrty_on_partner_LBAD", z3.And(of(hrx.retry_required) == as_bit(U.is_cmd(LBAD)), S(hrx.retry_required, ptx.retry_required)),
            clause="after an LBAD: the LBAD report that restarts transmission is the one that makes the receiver send LRTY")
    c.lemma("link_ready_is_transmitter_bringup_complete", S(U.d.ready, ptx.bringup_complete))
    c.lemma("timers_see_received_link_commands", z3.And(S(ptx.link_command_received, det.new_command), S(U.tm.link_command_received, det.new_command)))
    c.lemma("transmitter_errors_trigger_link_recovery",
            of(U.ltssm.trigger_link_recovery) == (of(U.tm.transition_to_recovery) | of(hrx.recovery_required) | of(ptx.recovery_required)),
            clause="(LCRD/LGOOD mismatches) an out-of-order credit or acknowledgement sends the link to recovery")


def contracts(tier):
    yield ("PacketTransmitter", "", transmitter)
    yield ("USB3LinkLayer", "wiring_transmitter", link_layer_transmitter_wiring)


LEVEL = "proof"
EXPLANATION = ("Unbounded inductive proof on the real PacketTransmitter (RawPacketTransmitter and LinkCommandDetector through their contracts). "
               "On the unchanged tree the check reports genuine defects in the LBAD handling (second LBAD during a retransmission, LBAD in the "
               "cycle a header is accepted / dispatched / the last retransmission completes); "
               "proposed_fixes/C39_lbad_during_retransmission.diff makes every obligation pass.")
ASSUMPTIONS = ["link up (enable=1)", "partner acknowledges only headers it has received", "partner advertises at most four credits beyond its acknowledgements",
               "RawPacketTransmitter / LinkCommandDetector contracts (C36 / C35)"]
