"""scratch: C15 restricted, for mutation runs only (deleted afterwards)."""
from .c15_iso_in import make
def contracts(tier):
    yield ("USBIsochronousStreamInEndpoint", "max8", make(8))
