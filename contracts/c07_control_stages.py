"""C07 — control transfers follow the setup / data / status stage protocol (USBControlEndpoint + StandardRequestHandler).

Unit under contract: the real `USBControlEndpoint` (luna/gateware/usb/usb2/control.py) with its real `USBSetupDecoder`,
`USBRequestHandlerMultiplexer` and a real `StandardRequestHandler`; endpoint number 0 and (second configuration) 2.
Environment = the EndpointInterface as the device drives it (token detector / handshake detector strobes, receive
strobes, tx.ready) — see `ControlEndpointEnv` in c10_unsupported_requests_stall.py for the requires.

Spec side: the abstract control transfer of USB 2.0 §8.5.3 as a ghost `stage`
     SETUP --(setup packet for this endpoint: IN & wLength>0)--> DATA_IN  --(OUT/PING token for this endpoint)--> STATUS_OUT
           --(OUT & wLength>0)--> DATA_OUT --(IN token for this endpoint)--> STATUS_IN
           --(wLength = 0)--> STATUS_IN
     any stage --(SETUP token for this endpoint)--> SETUP
advanced ONLY by events whose token targets this endpoint.  The invariant is the refinement map (stage FSM state = ghost
stage; direction/length of the current request agree with the stage; the request handler's state is a function of the
current request).

Clauses (ensures)
   data_requested_iff_data_stage_in_token, data_stage_only_after_in_setup_with_length, payload_only_after_data_stage_in_token
        "answers data-stage IN tokens only after a device-to-host SETUP with a non-zero length"
   status_requested_iff_status_stage, status_direction_opposite_to_data_stage, zlp_only_for_status_or_data_stage
        "answers the status stage in the direction opposite to the data stage (IN when there is no data stage)"
   new_setup_restarts_stage, new_setup_restarts_handler, transfer_starts_only_on_own_setup
        "treats every new SETUP as the start of a fresh control transfer, even if the previous one was abandoned"
   foreign_tokens_change_nothing, stage_changes_only_on_own_events
        "tokens for other endpoints never advance or disturb the control transfer"

Caller side (wiring obligations, functions in c10_unsupported_requests_stall.py).  The proof above has ONE request handler;
devices attach several (USBSerialDevice: standard + ACM + stall).  That every handler still sees the same transfer and only the
claiming one answers is the multiplexer's and the endpoint's hookup:
   USBRequestHandlerMultiplexer/wiring_3_handlers   every handler-input field fans out to every interface (and the fallback);
        exactly one claim -> EVERY shared output (tx stream, tx_data_pid, handshakes, commit strobes) is that handler's for all
        values of the other interfaces' lines; no claim -> the fallback's (which only STALLs, DATA1); tx.ready back to the
        selected interface only
   USBControlEndpoint/wiring_request_interface_acm  the real endpoint with StandardRequestHandler + ACMRequestHandlers +
        StallOnlyRequestHandler: setup packet / tokenizer / handshakes_in / active_config / gated rx reach the handlers, tx
        stream / data PID / handshake lines (ACK = decoder | handlers | PING probe) leave the endpoint, end to end per handler
"""
import z3
from hwv.contract import B, bvc, bits, bv1, zx
from . import spec
from .c10_unsupported_requests_stall import (ControlEndpointEnv, ST_SETUP, ST_DATA_IN, ST_DATA_OUT, ST_STATUS_IN,
                                             ST_STATUS_OUT, TYPE_STANDARD, REQ_GET_STATUS, REQ_CLEAR_FEATURE,
                                             REQ_SET_ADDRESS, REQ_GET_DESCRIPTOR, REQ_GET_CONFIGURATION,
                                             REQ_SET_CONFIGURATION)

LEVEL = "proof"
ASSUMPTIONS = ["PHY progress (half-duplex bus): by the time the host's next SETUP token for this endpoint arrives, the packet the "
               "endpoint was transmitting has been drained by the PHY (tx.ready fairness) — stated as require "
               "`no_transmission_pending_at_setup_token` over the handler's stream generators"]


from .c10_unsupported_requests_stall import handler_state_for   # noqa: E402  (spec: request -> serving handler state)


def make(ep):
    def contract(c):
        env = ControlEndpointEnv(c, handlers="standard", ep=ep)
        ts, I, O = env.ts, env.I, env.O
        env.stage_invariants()
        stage = env.stage
        h = env.handler_fsm()
        n = c.nx
        current = z3.Not(env.received)
        std = env.f_type == TYPE_STANDARD

        env.transfer_invariants()
        data_asked, in_with_data = env.data_asked, env.in_with_data

        # ---- ensures
        dr = ts.sig("data_requested") == 1             # what the stage FSM tells the request handlers
        sr = ts.sig("status_requested") == 1
        c.ensure("data_requested_iff_data_stage_in_token", dr == env.data_due,
                 clause="the handlers are asked for data exactly at a data-stage IN token for this endpoint (response window)")
        c.ensure("data_stage_only_after_in_setup_with_length", z3.Implies(z3.Or(dr, env.data_due), in_with_data),
                 clause="the device answers data-stage IN tokens only after a device-to-host SETUP with a non-zero length")
        c.ensure("payload_only_after_data_stage_in_token",
                 z3.Implies(z3.And(O["tx_valid"] == 1, O["tx_first"] == 1, current), z3.And(data_asked == 1, in_with_data)),
                 clause="a data packet with payload is only sent after a data-stage IN token of the current transfer, hence only "
                        "after a device-to-host SETUP with non-zero length")
        c.ensure("status_requested_iff_status_stage", sr == env.status_due,
                 clause="the status stage is answered exactly at an IN token (STATUS_IN) / received OUT packet (STATUS_OUT) for this endpoint")
        c.ensure("status_direction_opposite_to_data_stage",
                 z3.Implies(sr, z3.If(in_with_data, z3.And(env.is_out, stage == ST_STATUS_OUT), z3.And(env.is_in, stage == ST_STATUS_IN))),
                 clause="the status stage is answered in the direction opposite to the data stage (IN when there is no data stage)")
        c.ensure("zlp_only_for_status_or_data_stage",
                 z3.Implies(z3.And(O["tx_valid"] == 1, O["tx_first"] == 0, current),
                            z3.Or(env.status_due, data_asked == 1)),
                 clause="a zero-length packet is only sent as a status-stage answer, or to end an IN data stage")
        # fresh transfer on every SETUP
        c.ensure("new_setup_restarts_stage", z3.Implies(env.setup_token, n(stage) == ST_SETUP),
                 clause="every new SETUP (token for this endpoint) starts a fresh control transfer, whatever the previous stage was")
        after = z3.If(env.f_length != 0, z3.If(env.f_is_in, bvc(ST_DATA_IN, 3), bvc(ST_DATA_OUT, 3)), bvc(ST_STATUS_IN, 3))
        c.ensure("setup_packet_selects_stages", z3.Implies(z3.And(env.rcv, z3.Not(env.setup_token)), n(stage) == after),
                 clause="the decoded setup packet selects data-IN / data-OUT / no data stage")
        sp = ts.sig("StandardRequestHandler.start_position")
        fresh = [z3.Or(n(h.is_("IDLE")), n(handler_state_for(env, h))) if False else n(handler_state_for(env, h)),
                 n(sp) == 0, n(ts.sig("StandardRequestHandler.tx_data_pid")) == 1,
                 n(ts.sig("StandardRequestHandler.expecting_ack")) == 0]
        c.ensure("new_setup_restarts_handler", z3.Implies(z3.And(env.received, std), z3.And(*fresh)),
                 clause="... even if the previous transfer was abandoned mid-way: the request handler restarts with the new "
                        "request (state, descriptor position, DATA1, no ACK expected) regardless of its previous state")
        c.ensure("transfer_starts_only_on_own_setup",
                 z3.Implies(n(env.received), z3.And(env.dec.is_("READ_DATA"), env.prev_ep == ep, env.prev_pid == spec.PID_SETUP)),
                 clause="a new transfer (new setup packet reported to the handlers) only follows a SETUP token for this endpoint")
        c.ensure("setup_fields_change_only_with_report",
                 z3.Implies(z3.Not(n(env.received)), z3.And(*[n(f) == f for f in env.fields])),
                 clause="(frame) the current request only changes when a new one is reported")
        # tokens for other endpoints
        foreign = z3.And(env.new_token, z3.Not(env.ep0))
        c.ensure("foreign_tokens_change_nothing",
                 z3.Implies(foreign, z3.And(n(env.ctl.expr) == env.ctl.expr, n(stage) == stage,
                                            *[n(f) == f for f in env.fields], n(env.received) == False)),
                 clause="tokens for other endpoints never advance or disturb the control transfer (stage and request unchanged)")
        c.ensure("handshakes_only_for_own_transfer",
                 z3.And(z3.Implies(z3.And(O["hout_stall"] == 1, current), z3.Or(env.data_due, env.status_due, data_asked == 1)),
                        z3.Implies(O["hout_ack"] == 1, z3.Or(env.setup_ack, env.ping_probe, env.status_due)),
                        O["hout_nak"] == 0),
                 clause="the endpoint only issues handshakes in answer to its own transactions (never in answer to a token for "
                        "another endpoint)")
        # the request handler only leaves the state serving the current request because of events of this endpoint's own
        # transfer: a new setup packet, or (after) a data-stage IN token / status stage of this endpoint
        regs = {str(v): v for v in ts.state.values()}
        for rn, st_name in (("status_sent", "SET_ADDRESS"), ("status_sent$2", "SET_CONFIGURATION"),
                            ("clear_feature_status_sent", "CLEAR_FEATURE")):
            if ts.has_reg("StandardRequestHandler." + rn):
                c.inv(f"{rn}_only_after_status_stage".replace("$", "_"),
                      z3.Implies(regs["StandardRequestHandler." + rn] == 1,
                                 z3.And(env.answered == 1, current, std, h.is_(st_name),
                                        z3.Or(stage == ST_STATUS_IN, stage == ST_STATUS_OUT))))
        c.ensure("handler_changes_only_on_own_events",
                 z3.Implies(z3.And(n(h.expr) != h.expr, std),
                            z3.Or(env.received, env.answered == 1, env.data_due, env.status_due)),
                 clause="tokens and handshakes of other endpoints' transactions never disturb the request handler: it only leaves "
                        "its state on a new setup packet or after a data-stage IN token / status stage of this endpoint")
        own_event = z3.Or(env.setup_token, env.rcv, z3.And(env.new_token, env.ep0))
        c.ensure("stage_changes_only_on_own_events", z3.Implies(n(env.ctl.expr) != env.ctl.expr, own_event),
                 clause="the stage only advances on a token / setup packet for this endpoint")

        # ---- vacuity guards
        c.cover("data_requested", dr)
        c.cover("status_requested_in", z3.And(sr, env.is_in))
        c.cover("status_requested_out", z3.And(sr, env.is_out))
        c.cover("payload_sent", z3.And(O["tx_valid"] == 1, O["tx_first"] == 1))
        c.cover("setup_mid_transfer", z3.And(env.setup_token, stage == ST_DATA_IN))
        c.cover("foreign_token_mid_transfer", z3.And(foreign, stage == ST_DATA_IN))
        c.cover("foreign_setup_token", z3.And(foreign, env.is_setup, stage == ST_STATUS_IN))
        c.cover_depth = 30
        c.bmc_depth = 48
    return contract


def contracts(tier):
    yield ("USBControlEndpoint", "ep0_standard", make(0))
    # caller side: with SEVERAL handlers (the proof above has one) the multiplexer and the endpoint's hookup keep every
    # handler on the same transfer and let only the claiming one answer
    from .c10_unsupported_requests_stall import make_control_endpoint_wiring, make_mux_wiring
    yield ("USBRequestHandlerMultiplexer", "wiring_3_handlers", make_mux_wiring(3, own_fallback=False))
    yield ("USBControlEndpoint", "wiring_request_interface_acm", make_control_endpoint_wiring("acm", {"request_interface", "handlers"}, ep=0))
    if tier == "thorough":
        yield ("USBControlEndpoint", "ep2_standard", make(2))
