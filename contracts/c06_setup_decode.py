"""C06 — SETUP requests are decoded exactly and survive earlier corrupted packets.

Unit: the real USBSetupDecoder (standalone=False) with its real USBDataPacketDeserializer(max 8) submodule.  Its three
collaborators are used through their contracts (caller checked against callee):
  * token detector interface (events proved in C01) — free inputs new_token / pid;
  * inter-packet timer (C05) — free input tx_allowed; the decoder must start it when the data packet is delivered;
  * shared CRC16 unit (C30) as wired in USBDevice on the receive side (C02/USBDevice/crc_wiring): ghost register `crc`.
The endpoint-number condition of the statement ("addressed to the device's control endpoint") is applied one level up, in
USBControlEndpoint (`received & endpoint_targeted`), and is covered by the C07 contract.

Caller side ("call" / wiring obligations; the requires above are what the parents must discharge):
  * USBControlEndpoint/wiring_setup_decoder — on the real USBControlEndpoint: the real decoder instance's speed, tokenizer
    (every field), timer (tx_allowed/tx_timeout/rx_timeout, start) and CRC (crc, start) ports are the EndpointInterface's, it
    is built on the endpoint's UTMI bus with the endpoint's number, its ack reaches handshakes_out.ack and its packet record
    (every field) reaches the request handlers (c10_unsupported_requests_stall.control_endpoint_obligations);
  * USBDevice/wiring_setup_decoder_utmi (thorough: + _ulpi, 60 MHz HS-capable) — end to end inside the real USBDevice: the
    decoder's speed is the one the device timer and token detector use, its tokenizer record is the token detector's, its
    tx_allowed is the device timer's minimum rx-to-tx strobe and its start restarts that timer, its crc is the shared CRC16
    unit's output and its start reseeds it, and all of them watch the one UTMI receive stream (`device_hookup`).
"""
import z3
from hwv.contract import B, bvc, bits, bv1, zx
from luna.gateware.usb.usb2.request import USBSetupDecoder
from luna.gateware.usb.usb2.packet import USBDataPacketDeserializer
from luna.gateware.interface.utmi import UTMIInterface
from . import spec
from .common import UTMIRx

HS = 0


def decoder(c):
    utmi = UTMIInterface()
    d = USBSetupDecoder(utmi=utmi, standalone=False)
    p, tok = d.packet, d.tokenizer
    ts = c.unit(d, {"rx_data": utmi.rx_data, "rx_active": utmi.rx_active, "rx_valid": utmi.rx_valid,
                    "new_token": tok.new_token, "tok_pid": tok.pid, "speed": d.speed,
                    "tx_allowed": d.timer.tx_allowed, "timer_start": d.timer.start,
                    "crc_in": d.data_crc.crc, "crc_start": d.data_crc.start,
                    "received": p.received, "is_in_request": p.is_in_request, "type": p.type, "recipient": p.recipient,
                    "request": p.request, "value": p.value, "index": p.index, "length": p.length, "ack": d.ack})
    I, O = ts.inputs, ts.outputs
    dh = ts.instance(USBDataPacketDeserializer)
    rx = UTMIRx(c, I["rx_active"], I["rx_valid"], I["rx_data"], nbytes=11, cntw=4)      # PID + 8 payload + 2 CRC; n saturates at 15
    b = rx.b
    inpkt = rx.prev_active == 1
    T = spec.CRC16_USB2_TAPS
    # ---- callee contract: CRC unit on the receive path
    g = c.ghost("crc", 16, init=0xFFFF)
    g1 = c.ghost("crc_1_ago", 16, init=0xFFFF)
    g2 = c.ghost("crc_2_ago", 16, init=0xFFFF)
    p1 = c.ghost("last_byte", 8, init=0)
    p0 = c.ghost("byte_before_last", 8, init=0)
    c.set_next(g, z3.If(O["crc_start"] == 1, bvc(0xFFFF, 16), z3.If(I["rx_valid"] == 1, spec.crc_step(g, I["rx_data"], T), g)))
    c.require("crc_unit_contract", I["crc_in"] == spec.crc_field(g),
              why="contract of USBDataPacketCRC on the receive path (start reseeds, each rx_valid byte advances): proved in C30, "
                  "wiring in C02/USBDevice/crc_wiring; assumes no other CRC user's start / no transmit byte during a receive")
    body = z3.And(rx.byte_now, rx.n != 0)
    c.set_next(g1, z3.If(body, g, g1))
    c.set_next(g2, z3.If(body, g1, g2))
    c.set_next(p1, z3.If(body, I["rx_data"], p1))
    c.set_next(p0, z3.If(body, p1, p0))
    pid4 = bits(b[0], 3, 0)
    datapid = z3.And(spec.pid_valid(b[0]), z3.Or(*[pid4 == q for q in (spec.PID_DATA0, spec.PID_DATA1, spec.PID_DATA2, spec.PID_MDATA)]))
    match = spec.crc_field(g2) == z3.Concat(p1, p0)
    # a CRC-valid data packet ends now (n counts the PID: n-3 payload bytes); it fits the 8-byte buffer iff n <= 11
    good_end = z3.And(rx.ends_now, datapid, z3.UGE(rx.n, 3), z3.ULE(rx.n, 11), match)
    good8_end = z3.And(good_end, rx.n == 11)
    # ---- spec state from the statement: "a SETUP token ... is followed by a CRC-valid data packet"
    delivered = c.ghost("delivered", 1, init=0)          # the deserializer's (registered) delivery strobe of the previous cycle
    delivered8 = c.ghost("delivered8", 1, init=0)
    c.set_next(delivered, bv1(good_end))
    c.set_next(delivered8, bv1(good8_end))
    armed = c.ghost("armed", 1, init=0)                  # the last token was a SETUP for us and no data packet followed it yet
    pending = c.ghost("ack_pending", 1, init=0)          # a decoded SETUP is waiting for the inter-packet gap
    # ---- callee contract: the token detector (C01): a token event is reported the cycle after a complete 3-byte token packet
    #      ended, with that packet's PID
    tokpid = z3.And(spec.pid_valid(b[0]), z3.Or(*[pid4 == q for q in (spec.PID_IN, spec.PID_OUT, spec.PID_SETUP, spec.PID_PING)]))
    tok_ended = c.ghost("token_ended", 1, init=0)
    c.set_next(tok_ended, bv1(z3.And(rx.ends_now, rx.n == 3, tokpid)))
    c.require("token_detector_contract", z3.Implies(I["new_token"] == 1, z3.And(tok_ended == 1, I["tok_pid"] == pid4)),
              why="contract of USBTokenDetector proved in C01: new_token is raised only in the cycle after a complete, well-formed "
                  "3-byte IN/OUT/SETUP/PING token ended, and pid is that token's PID")
    c.inv("token_end_is_not_data_end", z3.Implies(tok_ended == 1, z3.And(delivered == 0, z3.Not(inpkt), tokpid)))
    c.inv("delivery_is_data_end", z3.Implies(delivered == 1, datapid))
    tok_setup = z3.And(I["new_token"] == 1, I["tok_pid"] == spec.PID_SETUP)
    accept = z3.And(armed == 1, delivered8 == 1)         # the setup request is reported (registered: visible next cycle)
    ack_now = z3.Or(z3.And(accept, z3.Or(I["tx_allowed"] == 1, I["speed"] == HS)), z3.And(pending == 1, I["tx_allowed"] == 1))
    c.set_next(armed, z3.If(pending == 1, bvc(0, 1),
                            z3.If(I["new_token"] == 1, bv1(tok_setup), z3.If(delivered == 1, bvc(0, 1), armed))))
    c.set_next(pending, z3.If(pending == 1, z3.If(I["tx_allowed"] == 1, bvc(0, 1), bvc(1, 1)),
                              bv1(z3.And(accept, z3.Not(z3.Or(I["tx_allowed"] == 1, I["speed"] == HS))))))
    c.require("no_token_in_response_gap", z3.Implies(z3.Or(pending == 1, delivered8 == 1), I["new_token"] == 0),
              why="the host sends no new token between a SETUP data packet and the device's handshake (USB 2.0 §8.5.3 / §7.1.18)")
    # ---- refinement: deserializer
    dfsm = ts.fsm("data_handler.fsm_state")
    pos = ts.sig("data_handler.position_in_packet")
    c.inv("d_legal", dfsm.legal())
    c.inv("d_idle", dfsm.is_("IDLE") == z3.Not(inpkt))
    c.inv("d_read_pid", dfsm.is_("READ_PID") == z3.And(inpkt, rx.n == 0))
    c.inv("d_capture", dfsm.is_("CAPTURE_DATA") == z3.And(inpkt, z3.UGE(rx.n, 1), z3.ULE(rx.n, 11), datapid))
    c.inv("d_position", z3.Implies(dfsm.is_("CAPTURE_DATA"), zx(pos, 5) + 1 == zx(rx.n, 5)))
    c.inv("d_pid", z3.Implies(dfsm.is_("CAPTURE_DATA"), ts.sig("data_handler.active_pid") == pid4))
    for i in range(8):
        c.inv(f"d_byte{i}", z3.Implies(z3.And(dfsm.is_("CAPTURE_DATA"), z3.UGE(rx.n, i + 2)),
                                       dh_active(ts, dh, i) == b[i + 1]))
    c.inv("d_last_word", z3.Implies(z3.And(dfsm.is_("CAPTURE_DATA"), z3.UGE(rx.n, 3)), ts.sig("data_handler.last_word") == z3.Concat(p1, p0)))
    c.inv("d_last_byte", z3.Implies(z3.And(dfsm.is_("CAPTURE_DATA"), z3.UGE(rx.n, 2)), bits(ts.sig("data_handler.last_word"), 15, 8) == p1))
    c.inv("d_byte_crc", z3.Implies(z3.And(dfsm.is_("CAPTURE_DATA"), z3.UGE(rx.n, 2)), ts.sig("data_handler.last_byte_crc") == spec.crc_field(g1)))
    c.inv("d_word_crc", z3.Implies(z3.And(dfsm.is_("CAPTURE_DATA"), z3.UGE(rx.n, 3)), ts.sig("data_handler.last_word_crc") == spec.crc_field(g2)))
    c.inv("d_delivery_strobe", ts.of(dh.new_packet) == delivered)
    c.inv("d_delivered8", z3.Implies(delivered8 == 1, z3.And(delivered == 1, ts.of(dh.length) == 8)))
    c.inv("d_not8", z3.Implies(z3.And(delivered == 1, delivered8 == 0), ts.of(dh.length) != 8))
    c.inv("delivered_outside_packet", z3.Implies(delivered == 1, z3.Not(inpkt)))
    # ---- refinement: decoder
    fsm = ts.fsm("fsm_state")
    c.inv("legal", fsm.legal())
    c.inv("idle", fsm.is_("IDLE") == z3.And(armed == 0, pending == 0))
    c.inv("read_data", fsm.is_("READ_DATA") == z3.And(armed == 1, pending == 0))
    c.inv("delay", fsm.is_("INTERPACKET_DELAY") == (pending == 1))
    c.inv("pending_excludes_armed", z3.Implies(pending == 1, armed == 0))
    n = c.nx
    # ---- ensures
    c.ensure("setup_reported_iff_setup_token_then_valid_8_byte_data", (n(O["received"]) == 1) == accept,
             clause="a new setup request is reported iff a SETUP token (addressed to us) is followed by a CRC-valid data packet of exactly 8 bytes")
    # the payload bytes of the delivered packet (ghost bytes are stable once the packet ended)
    payload = [ts.of(dh.packet[i]) for i in range(8)]
    c.inv("delivered_bytes", z3.Implies(delivered8 == 1, z3.And(*[payload[i] == b[i + 1] for i in range(8)])))
    c.ensure("fields_equal_bytes_little_endian", z3.Implies(accept, z3.And(
        z3.Concat(n(O["is_in_request"]), n(O["type"]), n(O["recipient"])) == b[1], n(O["request"]) == b[2],
        n(O["value"]) == z3.Concat(b[4], b[3]), n(O["index"]) == z3.Concat(b[6], b[5]), n(O["length"]) == z3.Concat(b[8], b[7]))),
        clause="the reported request type, request, value, index and length equal those bytes (little-endian)")
    c.ensure("fields_stable_otherwise", z3.Implies(z3.Not(accept), z3.And(*[n(O[k]) == O[k] for k in
             ("is_in_request", "type", "recipient", "request", "value", "index", "length")])),
             clause="nothing else changes the reported request")
    c.ensure("ack_exactly_once_not_before_gap", (O["ack"] == 1) == ack_now,
             clause="the SETUP is acknowledged once, no earlier than the inter-packet gap (timer 'response allowed'; at high speed the "
                    "processing delay already exceeds the one-cycle gap)")
    c.ensure("gap_timer_started_at_delivery", (O["timer_start"] == 1) == (delivered == 1),
             clause="the inter-packet gap is measured from the end of the data packet")
    c.ensure("rearmed_after_any_packet", z3.Implies(z3.Not(rx.active), n(dfsm.is_("IDLE"))),
             clause="a preceding corrupted, aborted or unrelated packet never causes a later valid SETUP transaction to be missed: "
                    "whatever the packet was, the receiver is idle again once it ends")
    c.cover("setup_received", O["received"] == 1)
    c.cover("ack_after_gap", z3.And(pending == 1, O["ack"] == 1))
    c.cover("bad_crc_packet", z3.And(rx.ends_now, datapid, rx.n == 11, z3.Not(match)))
    c.cover_depth = 30
    c.bmc_depth = 30


def dh_active(ts, dh, i):
    """the deserializer's capture buffer entry i: anonymous 8-bit registers (Array(Signal(8) ...) inside elaborate()),
    taken in netlist (= creation) order.  A wrong guess can only make the invariant fail, never pass."""
    regs = [v for k, v in ts.state.items() if k[0] == "ff" and str(v).startswith("data_handler.$signal") and v.size() == 8]
    return regs[i]


def device_hookup(c, kind="utmi"):
    """call obligation, end to end: inside the real USBDevice (kind "utmi": raw UTMI bus, 12 MHz, always full speed; "ulpi":
    ULPI PHY behind the real UTMITranslator, 60 MHz, high-speed capable; standard control endpoint + a bulk IN and a bulk
    OUT endpoint) the ports of the real USBSetupDecoder instance are driven by the device's token detector, inter-packet
    timer, CRC16 unit and speed -- through USBDevice.elaborate, USBEndpointMultiplexer and USBControlEndpoint.elaborate.
    These are the collaborators the decoder contract above uses through `require`s (token_detector_contract,
    crc_unit_contract) and free inputs (tx_allowed, speed)."""
    from luna.gateware.usb.usb2.device import USBDevice
    from luna.gateware.usb.usb2.packet import USBTokenDetector, USBDataPacketReceiver
    from luna.gateware.usb.usb2.endpoints.stream import USBStreamInEndpoint, USBStreamOutEndpoint
    from luna.gateware.usb.usb2.packet import USBDataPacketCRC
    from .c10_unsupported_requests_stall import small_descriptors, flat, wires, instance_sig, instance_reg, instance_regs
    from .w1_usb2_glue import timers_by_role
    if kind == "utmi":
        utmi = UTMIInterface()
        d = USBDevice(bus=utmi)
        ports = {n_: getattr(utmi, n_) for n_ in ("rx_data", "rx_active", "rx_valid", "tx_ready", "line_state", "session_end")}
    else:
        from amaranth.hdl.rec import Record
        bus = Record([('data', [('i', 8), ('o', 8), ('oe', 1)]), ('clk', [('o', 1)]), ('nxt', [('i', 1)]),
                      ('stp', [('o', 1)]), ('dir', [('i', 1)]), ('rst', [('o', 1)])])
        d = USBDevice(bus=bus, handle_clocking=False)
        ports = {"data_i": bus.data.i, "nxt": bus.nxt.i, "dir": bus.dir.i}
    d.add_standard_control_endpoint(small_descriptors())
    ep_in, ep_out = USBStreamInEndpoint(endpoint_number=1, max_packet_size=8), USBStreamOutEndpoint(endpoint_number=1, max_packet_size=8)
    d.add_endpoint(ep_in)
    d.add_endpoint(ep_out)
    ports.update({"connect": d.connect, "low_speed_only": d.low_speed_only, "full_speed_only": d.full_speed_only, "speed": d.speed,
                  "in_valid": ep_in.stream.valid, "in_payload": ep_in.stream.payload, "in_first": ep_in.stream.first,
                  "in_last": ep_in.stream.last, "out_ready": ep_out.stream.ready})
    ts = c.unit(d, ports)
    of, same = wires(ts)
    sd = ts.instance(USBSetupDecoder)
    dh = ts.instance(USBDataPacketDeserializer)
    td = ts.instance(USBTokenDetector)
    rxr = ts.instance(USBDataPacketReceiver)
    speed = ts.outputs["speed"]
    # the device's shared inter-packet timer and CRC16 unit: the real instances, by class / role (the token detector has a
    # private timer of its own), not by the submodule names USBDevice.elaborate happens to use
    timer, _ = timers_by_role(ts, td)
    crc = ts.instance(USBDataPacketCRC)
    timer_regs = instance_regs(ts, timer)            # the timer holds one register: its counter
    timer_counter = timer_regs[0][1] if len(timer_regs) == 1 else instance_reg(ts, timer, "counter")
    c.lemma("setup_decoder_speed_is_the_timers_and_the_devices", z3.And(same(sd.speed, speed), of(timer.speed) == speed,
                                                                       of(td.speed) == speed),
            clause="the decoder's 'high speed: ACK at once' shortcut, the inter-packet timer and the token detector all use the "
                   "device's current speed")
    tdi, sdt = flat(td.interface), flat(sd.tokenizer)
    c.lemma("setup_decoder_tokenizer_is_the_token_detector", z3.And(*[same(sdt[f], of(tdi[f])) for f in sdt]),
            clause="every field of the decoder's tokenizer record is the device's token detector's (require token_detector_contract)")
    c.lemma("setup_decoder_timer_is_the_device_timer",
            z3.And(same(sd.timer.tx_allowed, instance_sig(ts, timer, "rx_to_tx_at_min")),
                   same(sd.timer.tx_timeout, instance_sig(ts, timer, "rx_to_tx_at_max")),
                   same(sd.timer.rx_timeout, instance_sig(ts, timer, "tx_to_rx_timeout"))),
            clause="the decoder's 'response allowed' is the device inter-packet timer's minimum rx-to-tx delay strobe (C05), "
                   "not the maximum / timeout strobes")
    c.ensure("setup_decoder_start_restarts_the_device_timer", z3.Implies(of(sd.timer.start) == 1, c.nx(timer_counter) == 0),
             clause="the gap is measured by the device timer from the end of the SETUP data packet (the decoder's start restarts it)")
    c.lemma("setup_decoder_crc_is_the_shared_crc_unit", z3.And(same(sd.data_crc.crc, of(rxr.data_crc.crc)), same(dh.data_crc.crc, of(rxr.data_crc.crc))),
            clause="the decoder's deserializer checks against the device's shared CRC16 unit output (the one the data receiver reads; "
                   "C30/C02 wiring)")
    c.ensure("setup_decoder_start_reseeds_the_shared_crc_unit", z3.Implies(of(sd.data_crc.start) == 1, c.nx(instance_reg(ts, crc, "crc", width=16)) == 0xFFFF),
             clause="start reseeds the shared CRC unit (require crc_unit_contract)")
    c.lemma("shared_crc_unit_and_decoder_watch_the_same_bus",
            z3.And(of(crc.rx_data) == of(d.utmi.rx_data), of(crc.rx_valid) == of(d.utmi.rx_valid),
                   z3.BoolVal(sd.utmi is d.utmi and dh.utmi is d.utmi and td.utmi is d.utmi)),
            clause="CRC unit, token detector and setup decoder all watch the device's one UTMI receive stream")
    c.inv("no_state_needed", z3.BoolVal(True))


def contracts(tier):
    yield ("USBSetupDecoder", "", decoder)
    # caller side: the real USBControlEndpoint connects its setup decoder the way the contract above assumes
    from .c10_unsupported_requests_stall import make_control_endpoint_wiring
    yield ("USBControlEndpoint", "wiring_setup_decoder", make_control_endpoint_wiring("standard", {"setup_decoder"}, ep=0))
    yield ("USBDevice", "wiring_setup_decoder_utmi", device_hookup)
    # a control endpoint that is not endpoint 0 (the endpoint number must reach the decoder)
    yield ("USBControlEndpoint", "wiring_setup_decoder_acm_ep2", make_control_endpoint_wiring("acm", {"setup_decoder"}, ep=2))
    if tier == "thorough":
        yield ("USBDevice", "wiring_setup_decoder_ulpi", lambda c: device_hookup(c, "ulpi"))
