"""C03 — USB2 transmitted data packets are correctly framed with a valid CRC16 (USBDataPacketGenerator).

Modular structure (caller checked against the callee's contract):
  * USBDataPacketGenerator (the real FSM, crc interface open) is verified against the *contract* of the CRC unit as it is
    wired in USBDevice: "start reseeds to all ones; every byte accepted on the UTMI transmit bus advances the register by
    the bit-serial CRC16; crc output = inverted, bit-reversed register".  That contract is proved for the real
    USBDataPacketCRC in C30; here it is the ghost register `crc` and the `crc_unit_contract` require.
  * comb obligations on the netlist of the real USBDevice check that the production wiring is the one assumed: the CRC unit's
    tx_valid is (transmit-mux valid AND utmi.tx_ready), its tx_data is the mux data, the generator's crc interface is
    attached to the unit, and the multiplexer passes a lone transmitter through unchanged (ready back to it).
"""
import z3
from hwv.contract import B, bvc, bits, bv1
from luna.gateware.usb.usb2.packet import USBDataPacketGenerator, USBDataPacketCRC, USBHandshakeGenerator
from luna.gateware.interface.utmi import UTMIInterface, UTMIInterfaceMultiplexer
from . import spec

IDLE, PID, PAYLOAD, CRC1, CRC2 = range(5)
PIDS = [spec.pid_byte(p) for p in (spec.PID_DATA0, spec.PID_DATA1, spec.PID_DATA2, spec.PID_MDATA)]


def generator(c):
    d = USBDataPacketGenerator(standalone=False)
    s, tx = d.stream, d.tx
    ts = c.unit(d, {"data_pid": d.data_pid, "valid": s.valid, "first": s.first, "last": s.last, "payload": s.payload,
                    "ready": s.ready, "tx_valid": tx.valid, "tx_data": tx.data, "tx_ready": tx.ready,
                    "crc_start": d.crc.start, "crc_in": d.crc.crc})
    I, O = ts.inputs, ts.outputs
    T = spec.CRC16_USB2_TAPS
    accepted = z3.And(O["tx_valid"] == 1, I["tx_ready"] == 1)          # a byte is accepted by the PHY in this cycle
    # ---- callee contract: the CRC unit as wired in USBDevice (C30 + wiring obligations below)
    g = c.ghost("crc", 16, init=0xFFFF)
    c.set_next(g, z3.If(O["crc_start"] == 1, bvc(0xFFFF, 16), z3.If(accepted, spec.crc_step(g, O["tx_data"], T), g)))
    c.require("crc_unit_contract", I["crc_in"] == spec.crc_field(g),
              why="contract of USBDataPacketCRC as wired in USBDevice (advances on accepted transmit bytes): proved for the real "
                  "unit in C30 and for the wiring by C03/USBDevice/*; assumes no receive byte and no other CRC user's start "
                  "while the packet is transmitted (half-duplex bus)")
    # ---- spec automaton of the packet being sent, driven by observable events only
    ph = c.ghost("phase", 3, init=IDLE)
    sel = c.ghost("pid_sel", 2, init=0)
    zlp = c.ghost("zlp", 1, init=0)
    fin = c.ghost("payload_crc", 16, init=0xFFFF)      # CRC16 register over the whole payload (frozen once the payload ended)
    req_first = z3.And(I["valid"] == 1, I["first"] == 1)
    req_zlp = z3.And(I["valid"] == 1, I["last"] == 1, I["first"] == 0)
    c.require("stream_valid_held", z3.Implies(ph == PAYLOAD, I["valid"] == 1),
              why="USBInStream producer rule: valid is held from the first to the last byte of a packet")
    end_payload = z3.And(accepted, I["last"] == 1)
    c.set_next(ph, z3.If(ph == IDLE, z3.If(z3.Or(req_first, req_zlp), bvc(PID, 3), bvc(IDLE, 3)),
               z3.If(ph == PID, z3.If(accepted, z3.If(zlp == 1, bvc(CRC1, 3), bvc(PAYLOAD, 3)), bvc(PID, 3)),
               z3.If(ph == PAYLOAD, z3.If(end_payload, bvc(CRC1, 3), bvc(PAYLOAD, 3)),
               z3.If(ph == CRC1, z3.If(accepted, bvc(CRC2, 3), bvc(CRC1, 3)),
               z3.If(accepted, bvc(IDLE, 3), bvc(CRC2, 3)))))))
    c.set_next(sel, z3.If(ph == IDLE, I["data_pid"], sel))
    c.set_next(zlp, z3.If(ph == IDLE, z3.If(req_first, bvc(0, 1), z3.If(req_zlp, bvc(1, 1), zlp)), zlp))
    c.set_next(fin, z3.If(ph == CRC1, g, fin))
    # ---- refinement
    fsm = ts.fsm("fsm_state")
    c.inv("fsm_legal", fsm.legal())
    for st, code in (("IDLE", IDLE), ("SEND_PID", PID), ("SEND_PAYLOAD", PAYLOAD), ("SEND_CRC_FIRST", CRC1), ("SEND_CRC_SECOND", CRC2)):
        c.inv(f"{st.lower()}_is_phase", fsm.is_(st) == (ph == code))
    c.inv("phase_legal", z3.ULE(ph, CRC2))
    pid_tab = lambda x: z3.If(x == 0, bvc(PIDS[0], 8), z3.If(x == 1, bvc(PIDS[1], 8), z3.If(x == 2, bvc(PIDS[2], 8), bvc(PIDS[3], 8))))
    c.inv("pid_latched", z3.Implies(ph != IDLE, ts.sig("current_data_pid") == pid_tab(sel)))
    c.inv("zlp_latched", z3.Implies(ph != IDLE, ts.sig("is_zlp") == zlp))
    c.inv("crc_high_byte_captured", z3.Implies(ph == CRC2, ts.sig("remaining_crc") == bits(spec.crc_field(fin), 15, 8)))
    c.inv("payload_phase_only_for_non_zlp", z3.Implies(ph == PAYLOAD, zlp == 0))
    # ---- ensures: what appears on the UTMI transmit bus, phase by phase (statement, sentence 1 and 2)
    c.ensure("idle_silent", z3.Implies(ph == IDLE, z3.And(O["tx_valid"] == 0, O["ready"] == 0)),
             clause="nothing is transmitted and no payload byte is consumed without a request")
    c.ensure("pid_byte", z3.Implies(ph == PID, z3.And(O["tx_valid"] == 1, O["tx_data"] == pid_tab(sel), O["ready"] == 0)),
             clause="each transmitted packet is the DATA PID selected by the requested toggle (DATA0/1/2/MDATA with check nibble)...")
    c.ensure("payload_bytes_in_order_exactly_once", z3.Implies(ph == PAYLOAD, z3.And(
        O["tx_valid"] == I["valid"], O["tx_data"] == I["payload"], O["ready"] == I["tx_ready"])),
        clause="...followed by the payload bytes in order: a stream byte is consumed exactly when the PHY accepts it; every "
               "payload byte offered is sent exactly once")
    c.ensure("crc_low_byte", z3.Implies(ph == CRC1, z3.And(O["tx_valid"] == 1, O["tx_data"] == bits(spec.crc_field(g), 7, 0), O["ready"] == 0)),
             clause="...followed by the standard USB CRC16 of the payload, low byte first")
    c.ensure("crc_high_byte", z3.Implies(ph == CRC2, z3.And(O["tx_valid"] == 1, O["tx_data"] == bits(spec.crc_field(fin), 15, 8), O["ready"] == 0)),
             clause="...then the high byte, of the CRC over the payload only (even though the shared CRC unit advanced on the first CRC byte)")
    c.ensure("crc_restarted_for_each_packet", z3.Implies(ph == PID, O["crc_start"] == 1),
             clause="the CRC covers exactly the payload bytes of this packet")
    c.ensure("crc_not_restarted_mid_packet", z3.Implies(z3.Or(ph == PAYLOAD, ph == CRC1, ph == CRC2), O["crc_start"] == 0),
             clause="the CRC covers exactly the payload bytes of this packet")
    c.inv("crc_is_seed_after_pid", z3.Implies(z3.And(ph == CRC1, zlp == 1), g == 0xFFFF))
    c.ensure("zlp_has_crc_of_empty_payload", z3.Implies(z3.And(ph == CRC1, zlp == 1), O["tx_data"] == 0x00),
             clause="a request marked 'last' without 'first' produces a zero-length packet (PID, CRC16 of nothing = 0x0000)")
    c.cover("zlp_sent", z3.And(ph == CRC2, zlp == 1, accepted))
    c.cover("payload_packet_sent", z3.And(ph == CRC2, zlp == 0, accepted, fin != 0xFFFF))
    c.cover("stalled_payload", z3.And(ph == PAYLOAD, I["tx_ready"] == 0))


def device_wiring(c):
    from luna.gateware.usb.usb2.device import USBDevice
    utmi = UTMIInterface()
    dev = USBDevice(bus=utmi, handle_clocking=False)
    ts = c.unit(dev, {"tx_ready": utmi.tx_ready, "tx_valid": utmi.tx_valid, "tx_data": utmi.tx_data,
                      "rx_valid": utmi.rx_valid, "rx_data": utmi.rx_data, "rx_active": utmi.rx_active,
                      "line_state": utmi.line_state})
    I, O = ts.inputs, ts.outputs
    gen = ts.instance(USBDataPacketGenerator)
    crc = ts.instance(USBDataPacketCRC)
    mux = ts.instance(UTMIInterfaceMultiplexer)
    hs = ts.instance(USBHandshakeGenerator)
    of = ts.of
    c.comb("crc_advances_on_accepted_tx_bytes", of(crc.tx_valid), of(mux.output.valid) & I["tx_ready"],
           clause="CRC generator wired as in USBDevice: advancing on accepted transmit bytes")
    c.comb("crc_sees_tx_data", of(crc.tx_data), of(mux.output.data))
    c.comb("utmi_tx_is_mux_output", z3.Concat(O["tx_valid"], O["tx_data"]), z3.Concat(of(mux.output.valid), of(mux.output.data)))
    # a lone transmitter passes through the multiplexer unchanged and gets the PHY's ready
    rs_valid = [ts.of(i.valid) for i in mux._inputs if i is not gen.tx and i is not hs.tx]
    lone = z3.And(of(hs.tx.valid) == 0, *[v == 0 for v in rs_valid])
    c.lemma("lone_generator_passes_through_mux", z3.Implies(lone, z3.And(
        of(mux.output.valid) == of(gen.tx.valid),
        z3.Implies(of(gen.tx.valid) == 1, of(mux.output.data) == of(gen.tx.data)),
        of(gen.tx.ready) == I["tx_ready"])),
        clause="each packet comes from a single transmitter: with the other transmitters idle, the UTMI bus carries the generator's bytes and its ready")
    # the generator's start request reseeds the shared CRC unit
    from .c10_unsupported_requests_stall import instance_reg
    reg = instance_reg(ts, crc, "crc", width=16)      # the CRC unit's own register, located through the real instance
    c.ensure("generator_start_reseeds_crc", z3.Implies(of(gen.crc.start) == 1, c.nx(reg) == 0xFFFF))
    c.inv("true", z3.BoolVal(True))
    c.comb("generator_sees_unit_output", of(gen.crc.crc), spec.crc_field(reg), method="gf2",
           clause="the generator's crc input is the shared unit's inverted, bit-reversed register")


def contracts(tier):
    yield ("USBDataPacketGenerator", "", generator)
    yield ("USBDevice", "tx_wiring", device_wiring)
    # device with endpoints: endpoint tx streams -> data packet generator (stream, ready, data PID) -> UTMI transmit multiplexer
    # -> PHY; the shared CRC unit's users
    from .w1_usb2_glue import device_wiring as glue
    yield ("USBDevice", "wiring_utmi", glue("utmi", ("tx", "utmi_tx", "crc")))
    if tier != "quick":
        yield ("USBDevice", "wiring_ulpi", glue("ulpi", ("tx", "utmi_tx", "crc")))
