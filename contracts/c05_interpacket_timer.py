"""C05 — inter-packet response timing matches the selected bus speed (USBInterpacketTimer).

Leaf: the real USBInterpacketTimer for both supported domain clocks.  Caller side (w1_usb2_glue.device_timers): inside the real
USBDevice (raw-UTMI 12 MHz full-speed-only device and ULPI 60 MHz device, each with a control, a bulk IN and a bulk OUT
endpoint) the shared timer and the token detector's private timer meet the table *for the device's own clock and speed*,
measured from the users' start requests to the indications at the users' ports (data receiver, every endpoint)."""
import z3
from hwv.contract import B, zx, bvc
from luna.gateware.usb.usb2.packet import USBInterpacketTimer, InterpacketTimerInterface

# From the statement, in clock cycles of the domain clock.  bit time: HS 1/480e6, FS 1/12e6, LS 1/1.5e6.
# value = set of acceptable cycle counts (6.5 bit times is not a whole number of cycles at either clock: either
# neighbouring integer is accepted).
def table(clock, fs_only):
    cyc = lambda bits, rate: bits * clock / rate
    t = {}
    fs = {"min": {round(cyc(2, 12e6))}, "max": {int(cyc(6.5, 12e6)), int(cyc(6.5, 12e6)) + 1}, "to": {round(cyc(16, 12e6))}}
    t[1] = fs
    if not fs_only:
        t[0] = {"min": {1}, "max": {24}, "to": {round(cyc(736, 480e6))}}          # "one 60 MHz cycle", "24 cycles", 736 HS bit times
        t[2] = {"min": {round(cyc(2, 1.5e6))}, "max": {round(cyc(6.5, 1.5e6))}, "to": {round(cyc(16, 1.5e6))}}
    return t


def make(clock, fs_only):
    def contract(c):
        d = USBInterpacketTimer(domain_clock=clock, fs_only=fs_only)
        a, b = InterpacketTimerInterface(), InterpacketTimerInterface()
        d.add_interface(a); d.add_interface(b)
        ts = c.unit(d, {"speed": d.speed, "start_a": a.start, "start_b": b.start,
                        "tx_allowed": a.tx_allowed, "tx_timeout": a.tx_timeout, "rx_timeout": a.rx_timeout,
                        "tx_allowed_b": b.tx_allowed, "tx_timeout_b": b.tx_timeout, "rx_timeout_b": b.rx_timeout})
        I, O = ts.inputs, ts.outputs
        W = 12
        since = c.ghost("since", W, init=0)          # cycles elapsed since the most recent start (or reset), saturating
        start = z3.Or(I["start_a"] == 1, I["start_b"] == 1)
        c.set_next(since, z3.If(start, bvc(0, W), z3.If(since == (1 << W) - 1, since, since + 1)))
        counter = ts.sig("counter")
        tab = table(clock, fs_only)
        top = max(max(v) for sp in tab.values() for v in sp.values())
        # abstraction: the counter is the elapsed time, saturated somewhere above the largest delay of the table
        c.inv("counter_is_elapsed_time", z3.Or(zx(counter, W) == since,
                                                z3.And(z3.UGT(since, top), z3.UGT(zx(counter, W), top))))
        for sp, row in tab.items():
            nm = {0: "hs", 1: "fs", 2: "ls"}[sp]
            for key, port in (("min", "tx_allowed"), ("max", "tx_timeout"), ("to", "rx_timeout")):
                vals = sorted(row[key])
                if len(vals) == 1:
                    c.ensure(f"{nm}_{port}", z3.Implies(I["speed"] == sp, (O[port] == 1) == (since == vals[0])),
                             clause=f"speed={nm}: {port} exactly {vals[0]} cycles after the most recent start")
                else:
                    lo, hi = vals
                    # 6.5 bit times is not a whole number of cycles: the indication must come exactly once, at one of the
                    # two neighbouring cycle counts (no choice of rounding is imposed).
                    c.ensure(f"{nm}_{port}_only_at_{lo}_or_{hi}",
                             z3.Implies(z3.And(I["speed"] == sp, O[port] == 1), z3.Or(since == lo, since == hi)),
                             clause=f"speed={nm}: {port} only {lo} or {hi} cycles after the most recent start (6.5 bit times)")
                    c.ensure(f"{nm}_{port}_exactly_once",
                             z3.Implies(z3.And(I["speed"] == sp, since == lo, z3.Not(start), c.nx(I["speed"]) == sp),
                                        (O[port] == 1) != (c.nx(O[port]) == 1)),
                             clause=f"speed={nm}: {port} raised at exactly one of the two cycle counts")
                c.cover(f"{nm}_{port}", z3.And(I["speed"] == sp, O[port] == 1), reach=max(row[key]) <= 100)
        # every registered interface sees the same strobes
        for port in ("tx_allowed", "tx_timeout", "rx_timeout"):
            c.ensure(f"all_interfaces_{port}", O[port] == O[port + "_b"], clause="all timer users see the same indication")
        c.cover_depth = 104
    return contract


def contracts(tier):
    yield ("USBInterpacketTimer", "60MHz", make(60e6, False))
    yield ("USBInterpacketTimer", "12MHz_fs_only", make(12e6, True))
    from .w1_usb2_glue import device_timers, mux_wiring
    yield ("USBDevice", "wiring_utmi_12MHz_timers", device_timers("utmi"))
    yield ("USBDevice", "wiring_ulpi_60MHz_timers", device_timers("ulpi"))
    yield ("USBEndpointMultiplexer", "wiring_3_interfaces_timer", mux_wiring(3, ("timer", "tokenizer")))
