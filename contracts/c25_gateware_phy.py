"""C25 — the gateware full-speed PHY encodes and decodes USB line signalling (luna/gateware/interface/gateware_phy/).

The PHY mixes the 12 MHz `usb` and the 48 MHz `usb_io` domain; one engine step ticks every domain of a unit at once.  The
property is therefore decomposed into contracts that each talk about ONE clock domain (LEVEL "other"):

 proved, unbounded (1-induction on the real elaborate() of each class):
   TxShifter(8)           bytes are serialised LSB first, one byte per 8 enabled bit times, loaded (accepted) exactly once
   TxBitstuffer           a 0 is stuffed after six consecutive 1s (stall exactly then, counter restarts after the stuffed bit)
   TxNRZIEncoder          NRZI (0 = transition, 1 = none, first bit after idle is K), SE0-SE0-J end of packet, then release
   TxPipeline/usb_domain  the whole 12 MHz half of the real TxPipeline (controller + real shifter + real bit-stuffer) against
                          a reference serialiser written from the statement: SYNC 00000001, the accepted bytes LSB first with
                          stuffed zeros, o_data_strobe (tx_ready) exactly once per byte and for the byte that is serialised,
                          output enable up to the last (possibly stuffed) bit; observed at the class's fit_dat / fit_oe
                          outputs, i.e. before the clock-domain crossing.  Requires the UTMI producer protocol.
   RxNRZIDecoder          1 = no transition / 0 = transition between consecutive sampled line states, SE0 flag
   RxPacketDetect         receive-active framing: start at the 1 ending (at least five) 0s of the SYNC, end at SE0
   RxBitstuffRemover      the bit after six 1s is dropped; if that bit is a 1 a bit-stuffing error is reported
   RxShifter(8)           eight delivered bits make one byte (first bit = LSB after the pipeline's bit reversal), o_put once
   RxClockDataRecovery    ONLY two safety facts used by the others, for all inputs: bit strobes are never adjacent, a sampled
                          line state is one-hot
   RxPipeline/usb_io      the 48 MHz half of the real RxPipeline from the *sampled line states* to the write ports of the
                          crossing FIFOs (real decoder, detector, un-stuffer, shifter and their glue) against a reference
                          deserialiser: one write per 8 de-stuffed bits between SYNC and EOP, byte value, start/end flags,
                          bit-stuff error; plus the 12 MHz side wiring (in-progress flag, read enables)
   GatewarePHY            never drives D+/D- in the UTMI non-driving mode; pull-up / pull-down outputs follow term_select /
                          dp,dm_pulldown; normal-mode wiring of transmitter and receiver to the UTMI ports

 NOT proved (see NOT_PROVED / BOUNDED):
   * RxClockDataRecovery samples every bit exactly once for every phase and +-0.25 % drift (analogue timing) — outside;
   * the 48 MHz half of TxPipeline as a composite: 3-stage FFSynchronizer + bit strobe every 4th usb_io cycle in phase with
     the usb clock (only the NRZI block is proved; the 4:1 clock-ratio composition is an assumption);
   * the AsyncFIFOBuffered crossings of RxPipeline (asynchronous-reset flip-flops: outside the extractor's subset), i.e.
     "every byte written on the usb_io side is read exactly once, in order, on the usb side";
   * hence the end-to-end statements "appears on D+/D-" and "is delivered as exactly its bytes" hold block-wise and per
     clock domain only; no transmit->receive round trip.

Open stubs.  RxPipeline (inside GatewarePHY), RxClockDataRecovery and AsyncFIFOBuffered (inside RxPipeline) are replaced,
while the REAL parent elaborate() runs, by port-only stand-ins whose outputs are free inputs of the netlist.  This only adds
behaviours (sound for the safety clauses here) and models no repo code.

Obligations that FAIL on the unchanged tree (three genuine defects, each replayed from reset on Amaranth's simulator):
  * TxPipeline/usb_domain cons/shifter_holds_byte (witness violates `accepted_exactly_once` / `serial_bits`): the bit
    stuffer is never reset (ResetInserter(da_reset_bitstuff) targets the non-existent `sync` domain and the signal is
    never driven) and watches the free-running shifter between packets; six 1s shifted out during SYNC (e.g. first byte
    0x7E/0xFE held on tx_data) stall the shifter in the cycle in which the first byte should be loaded: a spurious 0 bit
    follows the SYNC and tx_ready comes a bit late.              fix: proposed_fixes/C25_tx_first_byte_stalled_by_stale_bitstuff.diff
  * GatewarePHY post/never_drives_in_non_driving_mode: OP_MODE_NONDRIVING / OP_MODE_NO_ENCODING constants are swapped
    with respect to UTMI (01 = non-driving, 10 = no bit-stuff/NRZI): with op_mode = 01 and tx_valid the PHY drives.
  * GatewarePHY post/pullup_follows_term_select, post/pulldown_follows_requests: the pull-down request is assigned to the
    pull-UP output (overriding term_select) and the pull-down output is never driven.
                                                                  fix: proposed_fixes/C25_phy_opmode_constants_and_pulldown.diff
With proposed_fixes/C25_all.diff every obligation is discharged.
"""
import z3
from hwv.contract import B, zx, bvc, bv1, bits
from luna.gateware.interface.gateware_phy.transmitter import TxShifter, TxBitstuffer, TxNRZIEncoder, TxPipeline
from luna.gateware.interface.gateware_phy.receiver import RxNRZIDecoder, RxBitstuffRemover, RxShifter, RxPacketDetect

LEVEL = "other"
NOT_PROVED = [
    "RxClockDataRecovery: every bit of a packet is sampled exactly once for all sampling phases and +-0.25% drift (outside: analogue timing)",
    "TxPipeline usb_io half as a composite (FFSynchronizer + NRZI with a bit strobe every 4th usb_io cycle): 4:1 clock ratio assumed, only the NRZI block proved",
    "AsyncFIFOBuffered crossings in RxPipeline (asynchronous resets: outside the extractor subset): bytes/flags written on the usb_io side are read once, in order, on the usb side",
    "end-to-end D+/D- <-> UTMI byte statements and the transmit->receive round trip (proved per block / per clock domain only)",
]
BOUNDED = ["not proved (no bounded stand-in either): " + x for x in NOT_PROVED]
EXPLANATION = ("Block contracts and two single-domain composites (TxPipeline 12 MHz half, RxPipeline 48 MHz half) proved by "
               "1-induction on the netlists of the real classes against bit-level reference (de)serialisers written from the "
               "statement; GatewarePHY op-mode / pull-up / pull-down / wiring clauses are combinational.  Clock-data recovery "
               "under drift, the asynchronous FIFOs and the 4:1 composition of the two clock domains are NOT proved: " +
               "; ".join(NOT_PROVED))
ASSUMPTIONS = ["usb_io is 4x usb and phase related (GatewarePHY docstring); not used by any proved clause, needed to compose them",
               "UTMI transmit producer holds TXValid/TXData until TXReady (TxPipeline composite)",
               "sampled line states contain no SE1 (correctly encoded packet)"]


def ite(cond, a, b):
    return z3.If(cond, a, b)


# ------------------------------------------------------------------------------------------------ TxShifter
def tx_shifter(c):
    d = TxShifter(width=8)
    ts = c.unit(d, {"i_data": d.i_data, "i_enable": d.i_enable, "i_clear": d.i_clear,
                    "o_get": d.o_get, "o_empty": d.o_empty, "o_data": d.o_data})
    I, O = ts.inputs, ts.outputs
    en, clr, empty = B(I["i_enable"]), B(I["i_clear"]), B(O["o_empty"])
    gv = c.ghost("has_byte", 1)            # a byte has been loaded and not been cleared
    gb = c.ghost("byte", 8)                # the byte loaded most recently
    gi = c.ghost("idx", 3)                 # index of the bit of `byte` that is on o_data now
    load = z3.And(en, empty, z3.Not(clr))  # the shifter takes i_data in this cycle
    c.set_next(gv, ite(clr, bvc(0, 1), ite(z3.And(en, empty), bvc(1, 1), gv)))
    c.set_next(gb, ite(clr, bvc(0, 8), ite(z3.And(en, empty), I["i_data"], gb)))
    c.set_next(gi, ite(clr, bvc(0, 3), ite(en, ite(empty, bvc(0, 3), gi + 1), gi)))
    pos, sh = ts.sig("pos"), ts.sig("shifter")
    c.inv("loaded_byte_position", z3.Implies(gv == 1, z3.And(pos == z3.LShR(bvc(0x80, 8), zx(gi, 8)),
                                                              sh == z3.LShR(gb, zx(gi, 8)))))
    c.inv("empty_shifter", z3.Implies(gv == 0, z3.And(pos == 1, sh == 0, gi == 0)))
    c.ensure("lsb_first", z3.Implies(gv == 1, O["o_data"] == z3.Extract(0, 0, z3.LShR(gb, zx(gi, 8)))),
             clause="the bytes appear LSB first: o_data is bit idx of the loaded byte, idx advancing by one per enabled bit time")
    c.ensure("idle_output_zero", z3.Implies(gv == 0, O["o_data"] == 0), clause="nothing loaded: serial output 0")
    c.ensure("empty_iff_last_bit", empty == z3.Or(gv == 0, gi == 7),
             clause="accepted byte-by-byte exactly once: a new byte is taken exactly when the 8th bit of the previous one is out")
    c.ensure("get_reports_load", c.nx(O["o_get"]) == ite(en, bv1(empty), O["o_get"]),
             clause="o_get (-> tx_ready) is raised for the bit time after the shifter took a byte, and only then")
    c.ensure("stalled_holds", z3.Implies(z3.And(z3.Not(en), z3.Not(clr)),
                                         z3.And(c.nx(O["o_data"]) == O["o_data"], c.nx(O["o_empty"]) == O["o_empty"])),
             clause="a stalled (bit-stuffing) bit time neither consumes nor repeats a data bit")
    c.cover("load", load)
    c.cover("last_bit", z3.And(gv == 1, gi == 7, en))
    c.cover("byte_0xA5_bit5", z3.And(gv == 1, gb == 0xA5, gi == 5, O["o_data"] == 1))


# ------------------------------------------------------------------------------------------------ TxBitstuffer
def tx_bitstuffer(c):
    d = TxBitstuffer()
    ts = c.unit(d, {"i_data": d.i_data, "o_stall": d.o_stall, "o_will_stall": d.o_will_stall, "o_data": d.o_data})
    I, O = ts.inputs, ts.outputs
    bit, stall = B(I["i_data"]), B(O["o_stall"])
    ones = c.ghost("ones", 3)              # consecutive 1s consumed since the last 0 / stuffed bit (observable history)
    c.set_next(ones, ite(stall, bvc(0, 3), ite(bit, ones + 1, bvc(0, 3))))
    fsm = ts.fsm("fsm_state")
    c.inv("fsm_legal", fsm.legal())
    for k in range(7):
        c.inv(f"state_D{k}_iff_{k}_ones", fsm.is_(f"D{k}") == (ones == k))
    c.ensure("stall_iff_six_ones", stall == (ones == 6), clause="a stuffed 0 after six 1s (the input is stalled exactly then)")
    c.ensure("output_bit", c.nx(O["o_data"]) == ite(stall, bvc(0, 1), I["i_data"]),
             clause="output = the input bits with a 0 inserted after six consecutive 1s")
    c.ensure("will_stall", B(O["o_will_stall"]) == z3.And(ones == 5, bit), clause="o_will_stall announces the stuffed bit")
    c.cover("stuffed", stall)
    c.cover("five_ones_then_zero", z3.And(ones == 5, z3.Not(bit)))


# ------------------------------------------------------------------------------------------------ TxNRZIEncoder
def tx_nrzi(c):
    d = TxNRZIEncoder()
    ts = c.unit(d, {"i_valid": d.i_valid, "i_oe": d.i_oe, "i_data": d.i_data,
                    "o_usbp": d.o_usbp, "o_usbn": d.o_usbn, "o_oe": d.o_oe})
    I, O = ts.inputs, ts.outputs
    v, oe, bit = B(I["i_valid"]), B(I["i_oe"]), B(I["i_data"])
    IDLE, DATA, SE0A, SE0B, EOPJ = range(5)
    ph = c.ghost("phase", 3)               # spec: where in the packet the line is
    lv = c.ghost("level_j", 1, init=1)     # spec: differential level while driving data (1 = J, 0 = K)
    c.set_next(ph, ite(z3.Not(v), ph,
               ite(ph == IDLE, ite(oe, bvc(DATA, 3), bvc(IDLE, 3)),
               ite(ph == DATA, ite(oe, bvc(DATA, 3), bvc(SE0A, 3)),
               ite(ph == SE0A, bvc(SE0B, 3), ite(ph == SE0B, bvc(EOPJ, 3), bvc(IDLE, 3)))))))
    c.set_next(lv, ite(z3.Not(v), lv,
               ite(ph == IDLE, ite(oe, bvc(0, 1), lv),                       # first bit of SYNC: J -> K
               ite(z3.And(ph == DATA, oe), ite(bit, lv, ~lv), lv))))         # NRZI: 0 toggles, 1 holds
    fsm = ts.fsm("fsm_state")
    c.inv("fsm_legal", fsm.legal())
    c.inv("phase_legal", z3.ULE(ph, 4))
    c.inv("idle", fsm.is_("IDLE") == (ph == IDLE))
    c.inv("dj", fsm.is_("DJ") == z3.And(ph == DATA, lv == 1))
    c.inv("dk", fsm.is_("DK") == z3.And(ph == DATA, lv == 0))
    c.inv("se0a", fsm.is_("SE0A") == (ph == SE0A))
    c.inv("se0b", fsm.is_("SE0B") == (ph == SE0B))
    c.inv("eopj", fsm.is_("EOPJ") == (ph == EOPJ))
    want_oe = ph != IDLE
    want_p = z3.Or(ph == IDLE, ph == EOPJ, z3.And(ph == DATA, lv == 1))
    want_n = z3.And(ph == DATA, lv == 0)
    c.ensure("drives_iff_in_packet", c.nx(O["o_oe"]) == bv1(want_oe),
             clause="D+/D- are driven from the first SYNC bit to the J of the end of packet, and released afterwards")
    c.ensure("line_levels", z3.And(c.nx(O["o_usbp"]) == bv1(want_p), c.nx(O["o_usbn"]) == bv1(want_n)),
             clause="NRZI-encoded bits (J: D+=1,D-=0; K: D+=0,D-=1; 0 = transition, 1 = none) and an SE0-SE0-J end of packet")
    c.cover("eop_j", z3.And(ph == EOPJ, v))
    c.cover("toggle", z3.And(ph == DATA, v, oe, z3.Not(bit), lv == 1))


# ------------------------------------------------------------------------------------------------ RxNRZIDecoder
def rx_nrzi(c):
    d = RxNRZIDecoder()
    ts = c.unit(d, {"i_valid": d.i_valid, "i_dj": d.i_dj, "i_dk": d.i_dk, "i_se0": d.i_se0,
                    "o_valid": d.o_valid, "o_data": d.o_data, "o_se0": d.o_se0})
    I, O = ts.inputs, ts.outputs
    v, dj, dk, se0 = B(I["i_valid"]), B(I["i_dj"]), B(I["i_dk"]), B(I["i_se0"])
    c.require("line_state_one_hot_no_se1", z3.Implies(v, z3.And(z3.Or(dj, dk, se0), z3.Not(z3.And(dj, dk)),
                                                                z3.Not(z3.And(dj, se0)), z3.Not(z3.And(dk, se0)))),
              why="RxClockDataRecovery presents the sampled line state one-hot; a correctly encoded packet contains no SE1")
    prev_k = c.ghost("prev_k", 1)          # the previously sampled line state was K
    c.set_next(prev_k, ite(v, I["i_dk"], prev_k))
    c.inv("last_sample", ts.sig("last_data") == prev_k)
    c.ensure("valid_pipelined", c.nx(O["o_valid"]) == I["i_valid"], clause="one decoded bit per sampled line state")
    c.ensure("nrzi_decode", z3.Implies(v, c.nx(O["o_data"]) == bv1(I["i_dk"] == prev_k)),
             clause="NRZI decoding: no change of the differential state = 1, change = 0")
    c.ensure("se0_flag", z3.Implies(v, c.nx(O["o_se0"]) == I["i_se0"]), clause="SE0 is passed on (end-of-packet detection)")
    c.ensure("hold_between_samples", z3.Implies(z3.Not(v), z3.And(c.nx(O["o_data"]) == O["o_data"], c.nx(O["o_se0"]) == O["o_se0"])),
             clause="outputs change only on a sample")
    c.cover("zero_bit", z3.And(v, I["i_dk"] != prev_k))
    c.cover("se0", z3.And(v, se0))


# ------------------------------------------------------------------------------------------------ RxPacketDetect
def rx_packet_detect(c):
    d = RxPacketDetect()
    ts = c.unit(d, {"i_valid": d.i_valid, "i_data": d.i_data, "i_se0": d.i_se0,
                    "o_pkt_start": d.o_pkt_start, "o_pkt_active": d.o_pkt_active, "o_pkt_end": d.o_pkt_end})
    I, O = ts.inputs, ts.outputs
    v, bit, se0 = B(I["i_valid"]), B(I["i_data"]), B(I["i_se0"])
    zc = c.ghost("zeros", 3)               # consecutive decoded 0 bits seen while idle (saturating at 5)
    act = c.ghost("active", 1)             # between the end of a SYNC and the next SE0
    start = z3.And(act == 0, v, zc == 5, bit, z3.Not(se0))
    end = z3.And(act == 1, v, se0)
    c.set_next(act, ite(start, bvc(1, 1), ite(end, bvc(0, 1), act)))
    c.set_next(zc, ite(z3.Or(act == 1, z3.Not(v)), ite(act == 1, bvc(0, 3), zc),
                       ite(z3.Or(bit, se0), bvc(0, 3), ite(zc == 5, zc, zc + 1))))
    fsm = ts.fsm("fsm_state")
    c.inv("fsm_legal", fsm.legal())
    c.inv("active", fsm.is_("PKT_ACTIVE") == (act == 1))
    for k in range(6):
        c.inv(f"D{k}", fsm.is_(f"D{k}") == z3.And(act == 0, zc == k))
    c.inv("zeros_range", z3.And(z3.ULE(zc, 5), z3.Implies(act == 1, zc == 0)))
    c.ensure("start_after_sync", B(O["o_pkt_start"]) == start,
             clause="receive-active framing starts at the 1 that ends a run of (at least five) 0 bits: the SYNC pattern KJKJKJKK")
    c.ensure("end_at_se0", B(O["o_pkt_end"]) == end, clause="receive-active framing ends at the first SE0 (end of packet)")
    c.ensure("active_between", B(O["o_pkt_active"]) == z3.And(act == 1, z3.Not(end)), clause="receive-active framing")
    c.cover("start", start)
    c.cover("end", end)


# ------------------------------------------------------------------------------------------------ RxBitstuffRemover
def rx_bitstuff(c):
    d = RxBitstuffRemover()
    ts = c.unit(d, {"i_valid": d.i_valid, "i_data": d.i_data, "o_data": d.o_data, "o_error": d.o_error, "o_stall": d.o_stall})
    I, O = ts.inputs, ts.outputs
    v, bit = B(I["i_valid"]), B(I["i_data"])
    ones = c.ghost("ones", 3)              # consecutive 1 bits received since the last 0 / dropped bit
    c.set_next(ones, ite(z3.Not(v), ones, ite(ones == 6, bvc(0, 3), ite(bit, ones + 1, bvc(0, 3)))))
    fsm = ts.fsm("fsm_state")
    c.inv("fsm_legal", fsm.legal())
    for k in range(7):
        c.inv(f"state_D{k}_iff_{k}_ones", fsm.is_(f"D{k}") == (ones == k))
    c.ensure("delivers_all_but_stuffed_bits", c.nx(O["o_stall"]) == bv1(z3.Not(z3.And(v, ones != 6))),
             clause="delivered as exactly its bytes: every received bit is passed on once, except the bit following six 1s")
    c.ensure("data_passed", c.nx(O["o_data"]) == I["i_data"], clause="delivered bits are the received bits")
    c.ensure("bitstuff_error", c.nx(O["o_error"]) == bv1(z3.And(v, ones == 6, bit)),
             clause="a bit-stuffing violation (a seventh consecutive 1) is reported as an error, and nothing else is")
    c.cover("dropped", z3.And(v, ones == 6, z3.Not(bit)))
    c.cover("error", z3.And(v, ones == 6, bit))


# ------------------------------------------------------------------------------------------------ RxShifter
def rx_shifter(c):
    d = RxShifter(width=8)
    ts = c.unit(d, {"i_reset": d.reset, "i_valid": d.i_valid, "i_data": d.i_data, "o_data": d.o_data, "o_put": d.o_put})
    I, O = ts.inputs, ts.outputs
    v, rst = B(I["i_valid"]), B(I["i_reset"])
    c.require("no_reset_with_bit", z3.Not(z3.And(v, rst)),
              why="in RxPipeline reset = pkt_end is raised in a bit-strobe cycle, i_valid (= not bitstuff.o_stall) one cycle "
                  "after a bit strobe; bit strobes are never adjacent (RxClockDataRecovery) — not discharged here")
    n = c.ghost("nbits", 4)                # bits received for the current byte: 0..8 (8 = a full byte is on o_data)
    acc = c.ghost("acc", 8)                # those bits, first received bit at the LSB
    full = n == 8
    c.set_next(n, ite(rst, bvc(0, 4), ite(v, ite(full, bvc(1, 4), n + 1), n)))
    c.set_next(acc, ite(rst, bvc(0, 8), ite(v, z3.Concat(I["i_data"], z3.Extract(7, 1, ite(full, bvc(0, 8), acc))), acc)))
    sr = ts.sig("shift_reg")
    rev = lambda x: z3.Concat(*[z3.Extract(i, i, x) for i in range(8)])      # bit reversal (pipeline applies o_data[::-1])
    # abstraction: shift_reg holds a sentinel 1 above the n bits received, first received bit highest
    c.inv("nbits_range", z3.ULE(n, 8))
    for k in range(9):
        if k == 0:
            body_ = sr == 1
        else:
            hi = z3.Extract(k, k, sr) == 1
            above = z3.Extract(8, k + 1, sr) == 0 if k < 8 else z3.BoolVal(True)
            # received bits: shift_reg[k-1] is the first bit ... shift_reg[0] the latest; acc has the first bit at bit 8-k
            got = z3.And(*[z3.Extract(k - 1 - j, k - 1 - j, sr) == z3.Extract(8 - k + j, 8 - k + j, acc) for j in range(k)])
            body_ = z3.And(hi, above, got)
        c.inv(f"sentinel_{k}", z3.Implies(n == k, body_))
    c.ensure("put_after_eighth_bit", c.nx(O["o_put"]) == bv1(z3.And(v, n == 7)),
             clause="delivered as exactly its bytes: o_put exactly once per eight received bits")
    c.ensure("byte_lsb_first", z3.Implies(full, rev(O["o_data"]) == acc),
             clause="the byte delivered (after the pipeline's bit reversal) has the first received bit as its LSB")
    c.inv("put_implies_full", z3.Implies(B(O["o_put"]), full))
    c.ensure("put_means_full", z3.Implies(B(O["o_put"]), full), clause="o_put is raised with a complete byte on o_data")
    c.cover("byte", z3.And(full, acc == 0xA5))
    c.cover("put", B(O["o_put"]))


# ------------------------------------------------------------------------------------------------ TxPipeline (12 MHz half)
def tx_pipeline_usb(c):
    """The `usb`-domain half of the real TxPipeline (controller FSM + TxShifter + TxBitstuffer) against a reference
    serialiser.  Observed at fit_dat / fit_oe (the values handed to the 48 MHz NRZI stage) and o_data_strobe (tx_ready).
    The usb_io half (synchronisers, NRZI encoder) is in the netlist but nothing here depends on it."""
    d = TxPipeline()
    ts = c.unit(d, {"i_bit_strobe": d.i_bit_strobe, "i_data_payload": d.i_data_payload, "i_oe": d.i_oe,
                    "o_data_strobe": d.o_data_strobe, "fit_dat": d.fit_dat, "fit_oe": d.fit_oe,
                    "o_usbp": d.o_usbp, "o_usbn": d.o_usbn, "o_oe": d.o_oe})
    I, O = ts.inputs, ts.outputs
    oe, pay = B(I["i_oe"]), I["i_data_payload"]
    IDLE, SYNC, DATA, LAST = range(4)
    sph = c.ghost("ref_phase", 2)          # reference serialiser: idle / SYNC / data / final stuffed bit
    scnt = c.ghost("ref_sync_bit", 3)      # index of the SYNC bit on the wire now
    gb = c.ghost("ref_byte", 8)            # byte being serialised
    gi = c.ghost("ref_bit", 3)             # index of its bit on the wire now
    ones = c.ghost("ref_ones", 3)          # consecutive data 1s sent since the last 0 / stuffed bit
    sp = c.ghost("ref_strobe_pending", 1)  # the byte was taken in the previous bit time: acceptance to be signalled
    bit = z3.Extract(0, 0, z3.LShR(gb, zx(gi, 8)))
    stuffing = ones == 6
    ones_n = ite(bit == 1, ones + 1, bvc(0, 3))
    last_bit = z3.And(sph == DATA, z3.Not(stuffing), gi == 7)
    take = z3.Or(z3.And(sph == SYNC, scnt == 7), z3.And(last_bit, oe))       # a byte is taken from i_data_payload now
    finish = z3.And(last_bit, z3.Not(oe))
    c.set_next(sph, ite(sph == IDLE, ite(oe, bvc(SYNC, 2), bvc(IDLE, 2)),
                    ite(sph == SYNC, ite(scnt == 7, bvc(DATA, 2), bvc(SYNC, 2)),
                    ite(sph == DATA, ite(finish, ite(ones_n == 6, bvc(LAST, 2), bvc(IDLE, 2)), bvc(DATA, 2)),
                        bvc(IDLE, 2)))))
    c.set_next(scnt, ite(sph == SYNC, scnt + 1, bvc(0, 3)))
    c.set_next(gb, ite(take, pay, gb))
    c.set_next(gi, ite(take, bvc(0, 3), ite(z3.And(sph == DATA, z3.Not(stuffing)), gi + 1, gi)))
    c.set_next(ones, ite(z3.And(sph == DATA, z3.Not(finish)), ite(stuffing, bvc(0, 3), ones_n), bvc(0, 3)))
    c.set_next(sp, ite(take, bvc(1, 1), ite(z3.And(sph == DATA, stuffing), sp, bvc(0, 1))))
    ref_oe = sph != IDLE
    ref_dat = ite(sph == SYNC, bv1(scnt == 7), ite(z3.And(sph == DATA, z3.Not(stuffing)), bit, bvc(0, 1)))
    ref_strobe = z3.And(sph == DATA, sp == 1, z3.Not(stuffing), oe)

    p_oe, p_pay, p_acc = c.ghost("prev_oe", 1), c.ghost("prev_payload", 8), c.ghost("prev_strobe", 1)
    c.set_next(p_oe, I["i_oe"]); c.set_next(p_pay, pay); c.set_next(p_acc, O["o_data_strobe"])
    c.require("utmi_tx_producer_holds", z3.Implies(z3.And(p_oe == 1, p_acc == 0), z3.And(oe, pay == p_pay)),
              why="UTMI transmit protocol: TXValid and TXData are held until TXReady (o_data_strobe) accepts the byte")

    fsm = ts.fsm("fsm_state")
    bs = ts.fsm("bitstuff.fsm_state")
    gray, sync_pulse = ts.sig("state_gray"), ts.sig("sync_pulse")
    pos, sh, o_get = ts.sig("shifter.pos"), ts.sig("shifter.shifter"), ts.sig("shifter.o_get")
    c.inv("fsm_legal", z3.And(fsm.legal(), bs.legal()))
    c.inv("phase_idle", fsm.is_("IDLE") == (sph == IDLE))
    c.inv("phase_sync", fsm.is_("SEND_SYNC") == (sph == SYNC))
    c.inv("phase_data", fsm.is_("SEND_DATA") == (sph == DATA))
    c.inv("phase_last", fsm.is_("STUFF_LAST_BIT") == (sph == LAST))
    c.inv("sync_pulse_position", ite(sph == SYNC, sync_pulse == z3.LShR(bvc(0x80, 8), zx(scnt, 8)), sync_pulse == 0))
    c.inv("gray_code", ite(sph == IDLE, z3.Or(gray == 0b00, gray == 0b10), ite(sph == SYNC, gray == 0b01, gray == 0b11)))
    c.inv("shifter_cleared_for_first_byte", z3.Implies(z3.And(sph == SYNC, scnt == 7), z3.And(pos == 1, sh == 0)))
    c.inv("producer_holds_during_sync", z3.Implies(sph == SYNC, z3.And(p_oe == 1, p_acc == 0)))
    c.inv("shifter_holds_byte", z3.Implies(sph == DATA, z3.And(pos == z3.LShR(bvc(0x80, 8), zx(gi, 8)),
                                                                sh == z3.LShR(gb, zx(gi, 8)), o_get == sp)))
    for k in range(7):
        c.inv(f"bitstuffer_D{k}", z3.Implies(sph == DATA, bs.is_(f"D{k}") == (ones == k)))
    c.inv("last_stuff_bit", z3.Implies(sph == LAST, bs.is_("D6")))
    c.inv("ref_ranges", z3.And(z3.ULE(ones, 6), z3.Implies(sph != DATA, ones == 0), z3.Implies(sph != SYNC, scnt == 0)))
    c.inv("strobe_pending_at_first_bit", z3.Implies(z3.And(sph == DATA, sp == 1), gi == 0))
    c.inv("accepted_byte_is_producers", z3.Implies(z3.And(sph == DATA, sp == 1),
                                                   z3.And(p_oe == 1, p_acc == 0, p_pay == gb)))

    c.ensure("output_enable", O["fit_oe"] == bv1(ref_oe),
             clause="the line is driven from the first SYNC bit to the last (possibly stuffed) data bit; the NRZI stage appends SE0-SE0-J")
    c.ensure("serial_bits", O["fit_dat"] == ref_dat,
             clause="appears as SYNC (00000001), then the bytes LSB first with a stuffed 0 after six 1s")
    c.ensure("accepted_exactly_once", B(O["o_data_strobe"]) == ref_strobe,
             clause="accepted byte-by-byte exactly once: tx_ready is raised in exactly one bit time per serialised byte")
    c.ensure("accepted_byte_is_the_serialised_byte", z3.Implies(ref_strobe, pay == gb),
             clause="each byte handed to the PHY (the TXData value at its TXReady) is the byte that appears on the wire")
    # 48 MHz half, glue only: the serial stream reaches the (separately proved) NRZI encoder as a pure 3-cycle delay
    c.ensure("crossing_is_a_three_cycle_delay", z3.And(c.nx(ts.sig("nrzi.i_data"), 3) == O["fit_dat"],
                                                       c.nx(ts.sig("nrzi.i_oe"), 3) == O["fit_oe"]),
             clause="(glue) the bits and the output enable reach the NRZI encoder unchanged, three usb_io cycles later")
    c.ensure("nrzi_glue", z3.And(ts.sig("nrzi.i_valid") == I["i_bit_strobe"], O["o_usbp"] == ts.sig("nrzi.o_usbp"),
                                 O["o_usbn"] == ts.sig("nrzi.o_usbn"), O["o_oe"] == ts.sig("nrzi.o_oe")),
             clause="(glue) the encoder advances on the bit strobe and drives the pipeline's D+/D-/oe outputs")
    c.cover("sync_done", z3.And(sph == SYNC, scnt == 7))
    c.cover("strobe", ref_strobe)
    c.cover("second_byte", z3.And(last_bit, oe))
    c.cover("end_of_packet", finish)
    c.cover("stuffed_bit", z3.And(sph == DATA, stuffing), reach=False)
    c.cover("final_stuffed_bit", sph == LAST, reach=False)
    c.cover_depth = 30


# ------------------------------------------------------------------------------------------------ RxClockDataRecovery
def rx_cdr_safety(c):
    """Only the two facts about the clock/data recovery block that the rest of the receive pipeline relies on, for ALL
    inputs (no timing assumption).  That the block samples every bit exactly once under drift is NOT proved."""
    from amaranth import Signal
    from luna.gateware.interface.gateware_phy.receiver import RxClockDataRecovery
    dp, dn = Signal(), Signal()
    d = RxClockDataRecovery(dp, dn)
    ts = c.unit(d, {"i_usbp": dp, "i_usbn": dn, "o_valid": d.line_state_valid, "o_dj": d.line_state_dj,
                    "o_dk": d.line_state_dk, "o_se0": d.line_state_se0, "o_se1": d.line_state_se1})
    O = ts.outputs
    pv = c.ghost("prev_valid", 1)
    c.set_next(pv, O["o_valid"])
    fsm = ts.fsm("fsm_state")
    phase = ts.sig("line_state_phase")
    c.inv("fsm_legal", fsm.legal())
    c.inv("valid_means_phase_2", z3.Implies(O["o_valid"] == 1, phase == 2))
    c.inv("after_valid_phase_3_or_realigned", z3.Implies(pv == 1, z3.Or(phase == 3, phase == 0)))
    names = ["o_dj", "o_dk", "o_se0", "o_se1"]
    onehot = z3.Or(*[z3.And(*[O[m] == (1 if m == n else 0) for m in names]) for n in names])
    c.inv("line_state_at_most_one_hot", z3.Or(onehot, z3.And(*[O[m] == 0 for m in names])))
    c.inv("valid_has_line_state", z3.Implies(O["o_valid"] == 1, onehot))
    c.ensure("bit_strobes_never_adjacent", z3.Not(z3.And(O["o_valid"] == 1, pv == 1)),
             clause="(used by RxShifter / RxPipeline contracts) line_state_valid is never high in two consecutive cycles")
    c.ensure("sampled_line_state_one_hot", z3.Implies(O["o_valid"] == 1, onehot),
             clause="(used by RxNRZIDecoder contract) a sampled line state is exactly one of J, K, SE0, SE1")
    c.cover("valid", O["o_valid"] == 1)


# ------------------------------------------------------------------------------------------------ RxPipeline (48 MHz half)
def rx_pipeline_usb_io(c):
    """The usb_io half of the real RxPipeline from the *sampled line states* to the write ports of the two clock-domain
    crossing FIFOs (real RxNRZIDecoder, RxPacketDetect, RxBitstuffRemover, RxShifter and their glue), against a
    reference deserialiser.  RxClockDataRecovery and AsyncFIFOBuffered are replaced by open stubs (ports only, outputs
    free inputs): the first because sampling under drift is outside, the second because of its asynchronous resets."""
    from amaranth import Elaboratable, Module, Signal
    import luna.gateware.interface.gateware_phy.receiver as rxmod

    class OpenCDR(Elaboratable):
        def __init__(self):
            self.line_state_valid, self.line_state_dj, self.line_state_dk = Signal(), Signal(), Signal()
            self.line_state_se0, self.line_state_se1 = Signal(), Signal()

        def elaborate(self, platform):
            return Module()

    class OpenFIFO(Elaboratable):
        def __init__(self, width):
            self.w_data, self.w_en, self.w_rdy = Signal(width), Signal(), Signal()
            self.r_data, self.r_rdy, self.r_en = Signal(width), Signal(), Signal()

        def elaborate(self, platform):
            return Module()

    cdr, fifos = OpenCDR(), [OpenFIFO(8), OpenFIFO(2)]
    made = []

    def fifo_factory(*, width, depth, r_domain, w_domain):
        f = fifos[len(made)]
        assert len(f.w_data) == width
        made.append(f)
        return f

    d = rxmod.RxPipeline()
    pf, ff = fifos
    ports = {"i_reset": d.reset, "i_valid": cdr.line_state_valid, "i_dj": cdr.line_state_dj, "i_dk": cdr.line_state_dk,
             "i_se0": cdr.line_state_se0, "i_se1": cdr.line_state_se1,
             "pf_w_data": pf.w_data, "pf_w_en": pf.w_en, "pf_r_data": pf.r_data, "pf_r_rdy": pf.r_rdy, "pf_r_en": pf.r_en,
             "ff_w_data": ff.w_data, "ff_w_en": ff.w_en, "ff_r_data": ff.r_data, "ff_r_rdy": ff.r_rdy, "ff_r_en": ff.r_en,
             "o_data_strobe": d.o_data_strobe, "o_data_payload": d.o_data_payload, "o_pkt_start": d.o_pkt_start,
             "o_pkt_in_progress": d.o_pkt_in_progress, "o_pkt_end": d.o_pkt_end, "o_receive_error": d.o_receive_error,
             "o_bit_strobe": d.o_bit_strobe}
    saved = (rxmod.RxClockDataRecovery, rxmod.AsyncFIFOBuffered)
    rxmod.RxClockDataRecovery = lambda p, n: cdr
    rxmod.AsyncFIFOBuffered = fifo_factory
    try:
        ts = c.unit(d, ports, under_contract="luna.gateware.interface.gateware_phy.receiver.RxPipeline.elaborate "
                                             "(RxClockDataRecovery and AsyncFIFOBuffered replaced by open stubs)")
    finally:
        rxmod.RxClockDataRecovery, rxmod.AsyncFIFOBuffered = saved
    c.assume("RxPipeline: RxClockDataRecovery and the two AsyncFIFOBuffered are open stubs (their outputs are free inputs)")
    I, O = ts.inputs, ts.outputs
    v, dj, dk, se0 = B(I["i_valid"]), B(I["i_dj"]), B(I["i_dk"]), B(I["i_se0"])
    pv, ppv = c.ghost("prev_valid", 1), c.ghost("prev2_valid", 1)
    c.set_next(pv, I["i_valid"]); c.set_next(ppv, pv)
    c.require("line_state_one_hot_no_se1", z3.Implies(v, z3.And(z3.Or(dj, dk, se0), z3.Not(z3.And(dj, dk)),
                                                                z3.Not(z3.And(dj, se0)), z3.Not(z3.And(dk, se0)))),
              why="sampled line states are one-hot (proved for RxClockDataRecovery); a correctly encoded packet has no SE1")
    c.require("bit_strobes_never_adjacent", z3.Not(z3.And(v, pv == 1)),
              why="proved for RxClockDataRecovery (contract RxClockDataRecovery/safety)")
    # --- reference deserialiser, stage A: the NRZI-decoded bit presented one cycle after the sample
    prevk = c.ghost("prev_k", 1); c.set_next(prevk, ite(v, I["i_dk"], prevk))
    a_v = c.ghost("a_valid", 1); c.set_next(a_v, I["i_valid"])
    a_bit = c.ghost("a_bit", 1); c.set_next(a_bit, ite(v, bv1(I["i_dk"] == prevk), a_bit))
    a_se0 = c.ghost("a_se0", 1); c.set_next(a_se0, ite(v, I["i_se0"], a_se0))
    av, abit, ase0 = a_v == 1, a_bit == 1, a_se0 == 1
    # framing
    zc, act = c.ghost("zeros", 3), c.ghost("active", 1)
    start = z3.And(act == 0, av, zc == 5, abit, z3.Not(ase0))
    end = z3.And(act == 1, av, ase0)
    c.set_next(act, ite(start, bvc(1, 1), ite(end, bvc(0, 1), act)))
    c.set_next(zc, ite(z3.Or(act == 1, z3.Not(av)), ite(act == 1, bvc(0, 3), zc),
                       ite(z3.Or(abit, ase0), bvc(0, 3), ite(zc == 5, zc, zc + 1))))
    in_packet = z3.And(act == 1, z3.Not(end))
    # bit un-stuffing
    ones = c.ghost("ones", 3)
    c.set_next(ones, ite(z3.Not(av), ones, ite(ones == 6, bvc(0, 3), ite(abit, ones + 1, bvc(0, 3)))))
    # stage B: the bit delivered to the byte assembler one cycle later
    b_ok = c.ghost("b_not_stuffed", 1); c.set_next(b_ok, bv1(z3.And(av, ones != 6)))
    b_in = c.ghost("b_in_packet", 1); c.set_next(b_in, bv1(in_packet))
    b_bit = c.ghost("b_bit", 1); c.set_next(b_bit, a_bit)
    b_err = c.ghost("b_error", 1); c.set_next(b_err, bv1(z3.And(av, ones == 6, abit)))
    bvld = z3.And(b_ok == 1, b_in == 1)
    n, acc = c.ghost("nbits", 4), c.ghost("acc", 8)
    full = n == 8
    c.set_next(n, ite(end, bvc(0, 4), ite(bvld, ite(full, bvc(1, 4), n + 1), n)))
    c.set_next(acc, ite(end, bvc(0, 8), ite(bvld, z3.Concat(b_bit, z3.Extract(7, 1, ite(full, bvc(0, 8), acc))), acc)))
    put = c.ghost("byte_complete", 1); c.set_next(put, bv1(z3.And(bvld, n == 7)))

    # --- abstraction map
    det, bsf = ts.fsm("detect.fsm_state"), ts.fsm("bitstuff.fsm_state")
    sr = ts.sig("shifter.shift_reg")
    c.inv("fsm_legal", z3.And(det.legal(), bsf.legal()))
    c.inv("strobe_history", z3.And(a_v == pv, z3.Not(z3.And(pv == 1, ppv == 1)), z3.Implies(b_ok == 1, ppv == 1)))
    c.inv("nrzi_stage", z3.And(ts.sig("nrzi.last_data") == prevk, ts.sig("nrzi.o_valid") == a_v,
                               ts.sig("nrzi.o_data") == a_bit, ts.sig("nrzi.o_se0") == a_se0))
    c.inv("detect_active", det.is_("PKT_ACTIVE") == (act == 1))
    for k in range(6):
        c.inv(f"detect_D{k}", det.is_(f"D{k}") == z3.And(act == 0, zc == k))
    c.inv("zeros_range", z3.And(z3.ULE(zc, 5), z3.Implies(act == 1, zc == 0)))
    for k in range(7):
        c.inv(f"unstuff_D{k}", bsf.is_(f"D{k}") == (ones == k))
    c.inv("unstuff_stage", z3.And(ts.sig("bitstuff.o_data") == b_bit, ts.sig("bitstuff.o_stall") == ~b_ok,
                                  ts.sig("bitstuff.o_error") == b_err, ts.sig("past_o_pkt_active") == b_in))
    c.inv("nbits_range", z3.ULE(n, 8))
    for k in range(9):
        if k == 0:
            body_ = sr == 1
        else:
            hi = z3.Extract(k, k, sr) == 1
            above = z3.Extract(8, k + 1, sr) == 0 if k < 8 else z3.BoolVal(True)
            got = z3.And(*[z3.Extract(k - 1 - j, k - 1 - j, sr) == z3.Extract(8 - k + j, 8 - k + j, acc) for j in range(k)])
            body_ = z3.And(hi, above, got)
        c.inv(f"assembler_{k}", z3.Implies(n == k, body_))
    c.inv("put_stage", z3.And(ts.sig("shifter.o_put") == put, z3.Implies(put == 1, full)))

    # --- ensures at the clock-domain crossing (usb_io side) and on the usb side of the stubs
    c.ensure("byte_written_once_per_eight_bits", O["pf_w_en"] == put,
             clause="delivered as exactly its bytes: one FIFO write per eight de-stuffed bits between SYNC and EOP")
    c.ensure("byte_value", z3.Implies(put == 1, O["pf_w_data"] == acc),
             clause="delivered as exactly its bytes: the byte written is the eight bits in order of arrival, first bit = LSB")
    c.ensure("framing_flags", z3.And(O["ff_w_en"] == bv1(z3.Or(start, end)),
                                     z3.Extract(1, 1, O["ff_w_data"]) == bv1(start), z3.Extract(0, 0, O["ff_w_data"]) == bv1(end)),
             clause="receive-active framing: start flag at the end of SYNC, end flag at the first SE0")
    c.ensure("bitstuff_error_reported", O["o_receive_error"] == b_err,
             clause="a bit-stuffing violation (seventh consecutive 1) is reported as an error")
    c.ensure("sync_and_eop_not_data", z3.Implies(bvld, z3.And(pv == 0, ppv == 1)),
             clause="only bits after the SYNC and before the SE0 are assembled into bytes")
    # usb (12 MHz) side, relative to the FIFO read ports
    rstart = z3.And(z3.Extract(1, 1, I["ff_r_data"]) == 1, I["ff_r_rdy"] == 1)
    rend = z3.And(z3.Extract(0, 0, I["ff_r_data"]) == 1, I["ff_r_rdy"] == 1)
    c.ensure("rx_active_framing", c.nx(O["o_pkt_in_progress"]) == ite(rstart, bvc(1, 1), ite(rend, bvc(0, 1), O["o_pkt_in_progress"])),
             clause="receive-active framing: in-progress is set by the start flag and cleared by the end flag")
    c.ensure("usb_side_wiring", z3.And(O["o_data_payload"] == I["pf_r_data"], O["o_data_strobe"] == I["pf_r_rdy"],
                                       O["pf_r_en"] == 1, O["ff_r_en"] == 1, B(O["o_pkt_start"]) == rstart, B(O["o_pkt_end"]) == rend),
             clause="each byte leaving the crossing FIFO is presented exactly once (read enable constantly high)")
    c.cover("start", start)
    c.cover("byte", put == 1, reach=False)
    c.cover("end", end, reach=False)
    c.cover("error", b_err == 1)
    c.cover_depth = 40


# ------------------------------------------------------------------------------------------------ GatewarePHY
UTMI_NORMAL, UTMI_NON_DRIVING, UTMI_NO_ENCODING = 0, 1, 2          # UTMI+ OpMode encoding (= luna UTMIOperatingMode)


def phy(with_pullup, with_pulldown, with_vbus):
    def contract(c):
        from amaranth import Elaboratable, Module, Signal
        from amaranth.hdl.rec import Record
        import luna.gateware.interface.gateware_phy.phy as phymod

        class OpenRxPipeline(Elaboratable):
            """Open stand-in for RxPipeline (whose AsyncFIFOBuffered is outside the extractor's subset): same ports, no
            logic, so every receiver output is an unconstrained input of the PHY netlist."""
            def __init__(self):
                self.reset = Signal()
                self.o_bit_strobe = Signal()
                self.i_usbp, self.i_usbn = Signal(), Signal()
                self.o_data_strobe, self.o_data_payload = Signal(), Signal(8)
                self.o_pkt_start, self.o_pkt_in_progress, self.o_pkt_end = Signal(), Signal(), Signal()
                self.o_receive_error = Signal()

            def elaborate(self, platform):
                return Module()

        layout = [('d_p', [('i', 1), ('o', 1), ('oe', 1)]), ('d_n', [('i', 1), ('o', 1), ('oe', 1)])]
        if with_pullup:
            layout.append(('pullup', [('o', 1)]))
        if with_pulldown:
            layout.append(('pulldown', [('o', 1)]))
        if with_vbus:
            layout.append(('vbus_valid', [('i', 1)]))
        io = Record(layout)
        d = phymod.GatewarePHY(io=io)
        ports = {"tx_data": d.tx_data, "tx_valid": d.tx_valid, "op_mode": d.op_mode, "xcvr_select": d.xcvr_select,
                 "term_select": d.term_select, "dp_pulldown": d.dp_pulldown, "dm_pulldown": d.dm_pulldown,
                 "d_p_i": io.d_p.i, "d_n_i": io.d_n.i,
                 "d_p_o": io.d_p.o, "d_n_o": io.d_n.o, "d_p_oe": io.d_p.oe, "d_n_oe": io.d_n.oe, "tx_ready": d.tx_ready}
        if with_pullup:
            ports["pullup_o"] = io.pullup.o
        if with_pulldown:
            ports["pulldown_o"] = io.pulldown.o
        stub = OpenRxPipeline()
        ports.update({"rx_o_bit_strobe": stub.o_bit_strobe, "rx_o_data_strobe": stub.o_data_strobe,
                      "rx_o_data_payload": stub.o_data_payload, "rx_o_pkt_start": stub.o_pkt_start,
                      "rx_o_pkt_in_progress": stub.o_pkt_in_progress, "rx_o_pkt_end": stub.o_pkt_end,
                      "rx_o_receive_error": stub.o_receive_error,
                      "rx_data": d.rx_data, "rx_valid": d.rx_valid, "rx_active": d.rx_active, "rx_error": d.rx_error})
        saved = phymod.RxPipeline
        phymod.RxPipeline = lambda: stub
        try:
            ts = c.unit(d, ports, under_contract="luna.gateware.interface.gateware_phy.phy.GatewarePHY.elaborate "
                                                 "(RxPipeline replaced by an open stub)")
        finally:
            phymod.RxPipeline = saved
        c.assume("GatewarePHY: the receiver (RxPipeline) is replaced by an open stub with unconstrained outputs")
        I, O = ts.inputs, ts.outputs
        sig = lambda n: (O[n] if n in O else I[n])      # an output nobody drives shows up as a free input
        txo = ts.instance(TxPipeline)
        c.ensure("never_drives_in_non_driving_mode",
                 z3.Implies(I["op_mode"] == UTMI_NON_DRIVING, z3.And(sig("d_p_oe") == 0, sig("d_n_oe") == 0)),
                 clause="the PHY never drives D+/D- in the UTMI non-driving operating mode (OpMode = 01)")
        c.ensure("normal_mode_is_the_transmitter",
                 z3.Implies(I["op_mode"] == UTMI_NORMAL,
                            z3.And(sig("d_p_o") == ts.of(txo.o_usbp), sig("d_n_o") == ts.of(txo.o_usbn),
                                   sig("d_p_oe") == ts.of(txo.o_oe), sig("d_n_oe") == ts.of(txo.o_oe),
                                   sig("tx_ready") == ts.of(txo.o_data_strobe),
                                   ts.of(txo.i_data_payload) == I["tx_data"], ts.of(txo.i_oe) == I["tx_valid"])),
                 clause="in normal mode D+/D-/output-enable and tx_ready are those of the transmit pipeline fed with tx_data/tx_valid")
        counter = ts.sig("counter")
        c.ensure("bit_strobe_every_fourth_cycle", z3.And(ts.of(txo.i_bit_strobe) == bv1(counter == 0), c.nx(counter) == counter + 1),
                 clause="(glue) the transmit bit strobe is one usb_io cycle in four (12 MHz bit rate)")
        if with_pullup:
            c.ensure("pullup_follows_term_select", sig("pullup_o") == I["term_select"],
                     clause="its pull-up output follows the termination request")
        if with_pulldown:
            c.ensure("pulldown_follows_requests", sig("pulldown_o") == (I["dp_pulldown"] | I["dm_pulldown"]),
                     clause="its pull-down output follows the pull-down requests")
        c.ensure("receive_outputs_are_the_receivers",
                 z3.And(sig("rx_data") == I["rx_o_data_payload"], sig("rx_active") == I["rx_o_pkt_in_progress"],
                        sig("rx_valid") == (I["rx_o_data_strobe"] & I["rx_o_pkt_in_progress"]),
                        sig("rx_error") == I["rx_o_receive_error"],
                        ts.of(stub.i_usbp) == (I["d_p_i"] & ~ts.of(txo.o_oe)), ts.of(stub.i_usbn) == (I["d_n_i"] & ~ts.of(txo.o_oe))),
                 clause="delivered ... with receive-active framing: rx_data/rx_valid/rx_active/rx_error are the receive pipeline's "
                        "byte, strobe-while-in-progress, in-progress and bit-stuff error; the receiver listens only while not transmitting")
        c.cover("non_driving_while_transmitting", z3.And(I["op_mode"] == UTMI_NON_DRIVING, I["tx_valid"] == 1))
        c.cover("normal_mode_driving", z3.And(I["op_mode"] == UTMI_NORMAL, sig("d_p_oe") == 1))
        c.cover_depth = 24
    return contract


def contracts(tier):
    """HWV_ONLY_UNITS=<comma separated unit names> restricts the run to those units (development aid for mutation runs)."""
    import os
    only = [x for x in os.environ.get("HWV_ONLY_UNITS", "").split(",") if x]
    for entry in _contracts(tier):
        if not only or entry[0] in only:
            yield entry


def _contracts(tier):
    yield ("TxShifter", "w8", tx_shifter)
    yield ("TxBitstuffer", "", tx_bitstuffer)
    yield ("TxNRZIEncoder", "", tx_nrzi)
    yield ("TxPipeline", "usb_domain", tx_pipeline_usb)
    yield ("RxNRZIDecoder", "", rx_nrzi)
    yield ("RxPacketDetect", "", rx_packet_detect)
    yield ("RxBitstuffRemover", "", rx_bitstuff)
    yield ("RxShifter", "w8", rx_shifter)
    yield ("RxClockDataRecovery", "safety", rx_cdr_safety)
    yield ("RxPipeline", "usb_io_domain", rx_pipeline_usb_io)
    yield ("GatewarePHY", "pullup_pulldown_vbus", phy(True, True, True))
    if tier == "thorough":
        yield ("GatewarePHY", "pullup_only", phy(True, False, False))
        yield ("GatewarePHY", "bare", phy(False, False, False))
        yield ("GatewarePHY", "pullup_vbus", phy(True, False, True))
