"""C04 — USB2 handshakes are generated and detected exactly."""
import z3
from hwv.contract import B, bvc, bits
from luna.gateware.usb.usb2.packet import USBHandshakeDetector, USBHandshakeGenerator
from luna.gateware.interface.utmi import UTMIInterface
from . import spec
from .common import UTMIRx


def detector(c):
    utmi = UTMIInterface()
    d = USBHandshakeDetector(utmi=utmi)
    ts = c.unit(d, {"rx_data": utmi.rx_data, "rx_active": utmi.rx_active, "rx_valid": utmi.rx_valid,
                    "ack": d.detected.ack, "nak": d.detected.nak, "stall": d.detected.stall, "nyet": d.detected.nyet})
    I, O = ts.inputs, ts.outputs
    rx = UTMIRx(c, I["rx_active"], I["rx_valid"], I["rx_data"], nbytes=1, cntw=2)
    fsm = ts.fsm("fsm_state")
    b0 = rx.b[0]
    pidok = spec.pid_valid(b0)
    inpkt = rx.prev_active == 1
    # abstraction function: FSM state <-> (in packet, bytes seen, first byte well-formed)
    c.inv("fsm_legal", fsm.legal())
    c.inv("idle_iff_no_packet", fsm.is_("IDLE") == z3.Not(inpkt))
    c.inv("read_pid_iff_0_bytes", fsm.is_("READ_PID") == z3.And(inpkt, rx.n == 0))
    c.inv("await_iff_1_wellformed_byte", fsm.is_("AWAIT_COMPLETION") == z3.And(inpkt, rx.n == 1, pidok))
    c.inv("await_holds_pid", z3.Implies(fsm.is_("AWAIT_COMPLETION"), ts.sig("active_pid") == bits(b0, 3, 0)))
    c.inv("irrelevant_iff_long_or_malformed",
          fsm.is_("IRRELEVANT") == z3.And(inpkt, z3.Or(z3.UGE(rx.n, 2), z3.And(rx.n == 1, z3.Not(pidok)))))
    for name, pid in (("ack", spec.PID_ACK), ("nak", spec.PID_NAK), ("stall", spec.PID_STALL), ("nyet", spec.PID_NYET)):
        event = z3.And(rx.ends_now, rx.n == 1, b0 == spec.pid_byte(pid))
        c.ensure(f"{name}_iff_one_byte_{name}_packet", (c.nx(O[name]) == 1) == event,
                 clause=f"{name.upper()} strobe is raised (next cycle) exactly when a one-byte packet whose byte is the "
                        f"{name.upper()} PID with correct check nibble ends; one cycle wide; never for longer or malformed packets")
        c.cover(f"{name}_detected", O[name] == 1)
    c.cover("long_packet", z3.And(rx.n == 3, rx.ends_now))


def generator(c):
    d = USBHandshakeGenerator()
    ts = c.unit(d, {"issue_ack": d.issue_ack, "issue_nak": d.issue_nak, "issue_stall": d.issue_stall,
                    "tx_valid": d.tx.valid, "tx_data": d.tx.data, "tx_ready": d.tx.ready})
    I, O = ts.inputs, ts.outputs
    fsm = ts.fsm("fsm_state")
    busy = c.ghost("busy", 1, init=0)            # a requested handshake has not yet been accepted by the PHY
    req = c.ghost("req", 3, init=0)              # which requests were made when the pending handshake was started
    reqs_now = z3.Concat(I["issue_stall"], I["issue_nak"], I["issue_ack"])
    anyreq = reqs_now != 0
    accept = z3.And(busy == 1, I["tx_ready"] == 1)
    c.set_next(busy, z3.If(busy == 1, z3.If(accept, bvc(0, 1), bvc(1, 1)), z3.If(anyreq, bvc(1, 1), bvc(0, 1))))
    c.set_next(req, z3.If(z3.And(busy == 0, anyreq), reqs_now, req))
    c.inv("fsm_legal", fsm.legal())
    c.inv("transmit_iff_busy", fsm.is_("TRANSMIT") == (busy == 1))
    pids = {0: spec.pid_byte(spec.PID_ACK), 1: spec.pid_byte(spec.PID_NAK), 2: spec.pid_byte(spec.PID_STALL)}
    # the byte offered is the PID (with check nibble) of one of the requests made when the generator was idle;
    # with exactly one request, that one.
    c.inv("data_is_a_requested_pid", z3.Implies(busy == 1, z3.And(req != 0, z3.Or(
        *[z3.And(bits(req, k) == 1, ts.sig("tx_data") == v) for k, v in pids.items()]))))
    c.ensure("valid_iff_pending", (O["tx_valid"] == 1) == (busy == 1),
             clause="tx.valid is held from the cycle after an idle-time request until the PHY accepts the byte (exactly one byte)")
    for k, nm in ((0, "ack"), (1, "nak"), (2, "stall")):
        c.ensure(f"{nm}_pid_sent", z3.Implies(z3.And(busy == 1, req == (1 << k)), O["tx_data"] == pids[k]),
                 clause=f"a lone {nm.upper()} request made while idle produces the {nm.upper()} PID with its check nibble")
        c.cover(f"{nm}_sent", z3.And(O["tx_valid"] == 1, I["tx_ready"] == 1, O["tx_data"] == pids[k]))
    c.ensure("data_stable_while_pending", z3.Implies(z3.And(busy == 1, z3.Not(accept)), c.nx(O["tx_data"]) == O["tx_data"]),
             clause="the PID is held until the PHY accepts it; requests made while busy are ignored")
    c.ensure("one_byte_only", z3.Implies(accept, c.nx(O["tx_valid"]) == 0), clause="exactly one single-byte packet per request")


def contracts(tier):
    yield ("USBHandshakeDetector", "", detector)
    yield ("USBHandshakeGenerator", "", generator)
