"""C29 — multi-byte IN endpoints serialise words little-endian with correct framing (USBMultibyteStreamInEndpoint).

The unit is the real USBMultibyteStreamInEndpoint *including* its inner USBStreamInEndpoint/USBInTransferManager.  The
contract is written at the interface between the word shifter and the inner byte endpoint (`stream_ep.stream`, the
"inner byte stream" of the property): its `ready` is whatever the real inner endpoint computes, and since the invariant
does not constrain the inner endpoint's state at all, every clause is proved for every `ready` value in every cycle
(= all byte-endpoint ready patterns).

Ghosts (from the two stream interfaces only):
    busy   a word has been accepted and not all of its bytes have been taken by the byte endpoint
    word, f, l   payload / first / last of that word as presented in the cycle it was accepted
    idx    number of its bytes already taken

Stream convention used by LUNA: a beat is transferred in a cycle with valid & ready; `first`/`last` are sampled by the
consumer in that cycle only (USBInTransferManager reads `last` under `valid & ready`).  The framing clause is therefore
stated on transfer cycles.
"""
import z3
from hwv.contract import B, bvc, bits, zx
from luna.gateware.usb.usb2.endpoints.stream import USBMultibyteStreamInEndpoint, USBStreamInEndpoint

LEVEL = "proof"
EXPLANATION = ("1-induction on the netlist of the real USBMultibyteStreamInEndpoint (inner byte endpoint included, its state "
               "left unconstrained): FSM/shift register/byte counter refine the ghost 'current word, bytes taken'.")


def make(W, max_packet=8, epnum=1):
    def contract(c):
        d = USBMultibyteStreamInEndpoint(byte_width=W, endpoint_number=epnum, max_packet_size=max_packet)
        s, itf = d.stream, d.interface
        # (port names carry a w_ prefix: with byte_width 1 the shift register *is* the inner `payload` signal, and a state
        #  variable named like a port would be the same z3 constant)
        ports = {"w_valid": s.valid, "w_payload": s.payload, "w_first": s.first, "w_last": s.last, "w_ready": s.ready,
                 # environment of the inner endpoint (only there so that it can drain and `ready` patterns are rich)
                 "tok_endpoint": itf.tokenizer.endpoint, "tok_is_in": itf.tokenizer.is_in,
                 "tok_ready_for_response": itf.tokenizer.ready_for_response, "tok_new_token": itf.tokenizer.new_token,
                 "hs_ack": itf.handshakes_in.ack, "tx_ready": itf.tx.ready,
                 "tx_valid": itf.tx.valid, "tx_payload": itf.tx.payload}
        ts = c.unit(d, ports)
        I, O = ts.inputs, ts.outputs
        n = c.nx
        inner = ts.instance(USBStreamInEndpoint)
        b_valid, b_ready = ts.of(inner.stream.valid) == 1, ts.of(inner.stream.ready) == 1
        b_payload, b_first, b_last = ts.of(inner.stream.payload), ts.of(inner.stream.first) == 1, ts.of(inner.stream.last) == 1

        CW = 4
        accept = z3.And(I["w_valid"] == 1, O["w_ready"] == 1)           # a word is accepted from the multi-byte stream
        xfer = z3.And(b_valid, b_ready)                             # a byte is taken by the byte endpoint
        busy = c.ghost("busy", 1, init=0)
        word = c.ghost("word", 8 * W, init=0)
        gf = c.ghost("f", 1, init=0)
        gl = c.ghost("l", 1, init=0)
        idx = c.ghost("idx", CW, init=0)
        final = idx == W - 1                                        # the byte on offer is the word's final byte
        c.set_next(busy, z3.If(accept, bvc(1, 1), z3.If(z3.And(xfer, final), bvc(0, 1), busy)))
        c.set_next(word, z3.If(accept, I["w_payload"], word))
        c.set_next(gf, z3.If(accept, I["w_first"], gf))
        c.set_next(gl, z3.If(accept, I["w_last"], gl))
        c.set_next(idx, z3.If(accept, bvc(0, CW), z3.If(xfer, idx + 1, idx)))

        def le_byte(v, i_term):                                     # spec: byte i of v, little-endian
            out = bvc(0, 8)
            for i in range(W):
                out = z3.If(i_term == i, bits(v, 8 * i + 7, 8 * i), out)
            return out

        # ---- abstraction
        fsm = ts.fsm("fsm_state")
        B_ = busy == 1
        c.inv("fsm_legal", fsm.legal())
        c.inv("idle_iff_no_word", fsm.is_("IDLE") == z3.Not(B_))
        c.inv("transmit_iff_word_pending", fsm.is_("TRANSMIT") == B_)
        c.inv("idx_in_range", z3.Implies(B_, z3.ULT(idx, W)))
        c.inv("counter_is_bytes_left", z3.Implies(B_, zx(ts.sig("bytes_to_send"), CW) == (W - 1) - idx))
        sh = ts.sig("data_shift")
        c.inv("shift_register_holds_remaining_bytes",
              z3.Implies(B_, z3.And(*[z3.Implies(idx == i, sh == z3.LShR(word, 8 * i)) for i in range(W)])))
        c.inv("flags_latched", z3.Implies(B_, z3.And(ts.sig("first_latched") == gf, ts.sig("last_latched") == gl)))

        # ---- ensures
        c.ensure("byte_offered_iff_word_pending", b_valid == B_,
                 clause="each word accepted is sent as its bytes ... exactly once: a byte is offered exactly while an accepted word has untaken bytes")
        c.ensure("bytes_little_endian", z3.Implies(B_, b_payload == le_byte(word, idx)),
                 clause="each word accepted from the multi-byte stream is sent as its bytes in little-endian order")
        c.ensure("first_flag_on_first_byte", z3.Implies(xfer, b_first == z3.And(gf == 1, idx == 0)),
                 clause="with the word's 'first' flag on its first byte (and on no other byte)")
        c.ensure("last_flag_on_final_byte", z3.Implies(xfer, b_last == z3.And(gl == 1, final)),
                 clause="and its 'last' flag on its final byte (and on no other byte)")
        c.ensure("exactly_width_bytes_per_word",
                 z3.Implies(B_, n(busy) == z3.If(accept, bvc(1, 1), z3.If(z3.And(xfer, final), bvc(0, 1), bvc(1, 1)))),
                 clause="exactly once: the word is finished after exactly byte_width byte transfers")
        c.ensure("ready_only_when_byte_endpoint_has_taken_the_word",
                 (O["w_ready"] == 1) == z3.Or(z3.Not(B_), z3.And(B_, final, b_ready)),
                 clause="words are accepted only as fast as the underlying byte endpoint can take them: ready exactly when no word is "
                        "pending, or the pending word's final byte is being taken in this cycle")
        c.ensure("no_accept_while_bytes_remain", z3.Implies(z3.And(B_, z3.Not(z3.And(xfer, final))), z3.Not(accept)),
                 clause="a new word is never accepted while bytes of the previous one are still untaken (no byte is dropped)")
        c.ensure("byte_held_until_taken",
                 z3.Implies(z3.And(B_, z3.Not(xfer)), z3.And(n(b_valid), n(b_payload) == b_payload)),
                 clause="exactly once: an offered byte is held unchanged until the byte endpoint takes it")
        c.ensure("next_byte_follows",
                 z3.Implies(z3.And(B_, xfer, z3.Not(final)), z3.And(n(b_valid), n(b_payload) == le_byte(word, idx + 1))),
                 clause="bytes of a word follow each other in little-endian order")
        c.ensure("new_word_starts_at_byte0",
                 z3.Implies(accept, z3.And(n(b_valid), n(b_payload) == bits(I["w_payload"], 7, 0))),
                 clause="an accepted word's least significant byte is offered in the next cycle")

        # ---- vacuity
        c.cover("stalled_byte", z3.And(B_, z3.Not(b_ready)))
        c.cover("back_to_back_words", z3.And(B_, accept))
        c.cover("last_flag_sent", z3.And(xfer, b_last))
        c.cover("first_flag_sent", z3.And(xfer, b_first, idx == 0))
        if W > 1:
            c.cover("middle_or_final_byte_nonzero", z3.And(xfer, idx == W - 1, b_payload != 0, bits(word, 7, 0) == 0))
        c.cover("inner_endpoint_transmits", z3.And(O["tx_valid"] == 1, I["tx_ready"] == 1))
        c.cover_depth = 2 * max_packet + 3 * W + 8
    return contract


def contracts(tier):
    if tier == "quick":
        cfgs = [(1, 8), (2, 8), (3, 8), (4, 8), (9, 8)]     # 9: a word wider than 8 bytes (byte counter needs 4 bits; seed P2_1)
    else:
        cfgs = [(w, 8) for w in (1, 2, 3, 4, 5, 8)] + [(2, 64), (4, 64), (4, 512), (3, 16), (9, 8)]
    for w, mp in cfgs:
        yield ("USBMultibyteStreamInEndpoint", f"bytes{w}_maxpkt{mp}", make(w, mp))
