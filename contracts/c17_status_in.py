"""C17 — status (signal) IN endpoints report the latched value consistently (USBSignalInEndpoint).

Spec side (ghosts, all defined from the endpoint's inputs only):

    ph     protocol phase of the endpoint as the host sees it
             IDLE   nothing outstanding; the next poll samples the signal
             SEND   a response packet is being transmitted (byte `nsent` of `nbytes` is on offer)
             AWAIT  a complete packet was sent, the handshake is outstanding
             RETRY  the host started a new transaction (token) without ACKing: the next poll must repeat the packet
    val    the value of `signal` in the cycle of the poll that started the outstanding transfer
    nsent  bytes of the current packet accepted by the transmitter (tx.ready while SEND)

A *poll* is a response slot for an IN token to this endpoint number
(`tokenizer.ready_for_response & tokenizer.is_in & tokenizer.endpoint == N`).  A response slot that arrives while the
endpoint is still transmitting or while the handshake is outstanding and no new token has been seen (it cannot belong to
a new host poll: the token detector raises the slot one inter-packet delay *after* a token) is specified to be ignored.

The only environment assumption is that an ACK strobe and a token strobe do not coincide (they are raised one cycle after
the end of a one-byte resp. three-byte packet: ensures of C04 / C01).
"""
import z3
from hwv.contract import B, bvc, bits, zx
from luna.gateware.usb.usb2.endpoints.status import USBSignalInEndpoint

IDLE, SEND, AWAIT, RETRY = 0, 1, 2, 3

LEVEL = "proof"
ASSUMPTIONS = [
    "C17: an ACK strobe and a token strobe never coincide (consequence of the C01/C04 ensures on the shared receive path)",
    "C17: a 'poll' is tokenizer.ready_for_response & is_in & endpoint==N; response slots while a packet is being sent or "
    "before any new token after it are specified as ignored (they cannot belong to a new IN token)",
]
EXPLANATION = ("1-induction on the netlist of the real USBSignalInEndpoint: the FSM and its registers refine a four-phase "
               "ghost protocol machine (IDLE/SEND/AWAIT/RETRY) driven only by the endpoint's inputs; every ensures clause is "
               "proved for all states satisfying the refinement map, hence for histories of any length.")


def make(width, endianness, epnum=3, signal_domain="usb"):
    def contract(c):
        d = USBSignalInEndpoint(width=width, endpoint_number=epnum, endianness=endianness, signal_domain=signal_domain)
        itf = d.interface
        ts = c.unit(d, {
            "signal": d.signal, "endpoint": itf.tokenizer.endpoint, "is_in": itf.tokenizer.is_in,
            "ready_for_response": itf.tokenizer.ready_for_response, "new_token": itf.tokenizer.new_token,
            "ack": itf.handshakes_in.ack, "tx_ready": itf.tx.ready,
            "tx_valid": itf.tx.valid, "tx_first": itf.tx.first, "tx_last": itf.tx.last, "tx_payload": itf.tx.payload,
            "tx_pid_toggle": itf.tx_pid_toggle, "status_read_complete": d.status_read_complete})
        I, O = ts.inputs, ts.outputs
        n = c.nx
        nbytes = (width + 7) // 8
        CW = 4

        poll = z3.And(I["endpoint"] == epnum, I["is_in"] == 1, I["ready_for_response"] == 1)
        ack, tok, rdy = I["ack"] == 1, I["new_token"] == 1, I["tx_ready"] == 1

        ph = c.ghost("ph", 2, init=IDLE)
        val = c.ghost("val", width, init=0)
        nsent = c.ghost("nsent", CW, init=0)
        is_ = lambda *s: z3.Or(*[ph == x for x in s])
        last_byte = nsent == nbytes - 1
        c.set_next(ph, z3.If(is_(IDLE), z3.If(poll, bvc(SEND, 2), bvc(IDLE, 2)),
                        z3.If(is_(SEND), z3.If(z3.And(rdy, last_byte), bvc(AWAIT, 2), bvc(SEND, 2)),
                        z3.If(is_(AWAIT), z3.If(ack, bvc(IDLE, 2), z3.If(tok, bvc(RETRY, 2), bvc(AWAIT, 2))),
                              z3.If(poll, bvc(SEND, 2), bvc(RETRY, 2))))))
        c.set_next(val, z3.If(z3.And(is_(IDLE), poll), I["signal"], val))
        c.set_next(nsent, z3.If(z3.And(is_(IDLE, RETRY), poll), bvc(0, CW),
                           z3.If(z3.And(is_(SEND), rdy), nsent + 1, nsent)))

        c.require("ack_and_token_strobes_exclusive", z3.Not(z3.And(ack, tok)),
                  why="handshake strobes are raised the cycle after a one-byte packet ends (C04 ensures), token strobes the "
                      "cycle after a three-byte packet ends (C01 ensures); one packet cannot be both")

        # ---- spec: byte `i` (in transmission order) of a value, in the configured byte order; the value is zero-extended
        #      to a whole number of bytes
        def wire_byte(v, i_term):
            full = zx(v, nbytes * 8)
            out = bvc(0, 8)
            for i in range(nbytes):
                k = i if endianness == "little" else nbytes - 1 - i
                out = z3.If(i_term == i, bits(full, 8 * k + 7, 8 * k), out)
            return out

        # ---- abstraction (refinement map FSM/registers <-> ghosts)
        fsm = ts.fsm("fsm_state")
        c.inv("fsm_legal", fsm.legal())
        c.inv("idle", fsm.is_("IDLE") == is_(IDLE))
        c.inv("transmit", fsm.is_("TRANSMIT_RESPONSE") == is_(SEND))
        c.inv("wait_for_ack", fsm.is_("WAIT_FOR_ACK") == is_(AWAIT))
        c.inv("retransmit", fsm.is_("RETRANSMIT") == is_(RETRY))
        c.inv("count_is_bytes_sent", z3.Implies(is_(SEND), z3.And(zx(ts.sig("bytes_transmitted"), CW) == nsent,
                                                                   z3.ULT(nsent, nbytes))))
        c.inv("latch_holds_polled_value", z3.Implies(is_(SEND, AWAIT, RETRY), ts.sig("latched_signal") == val))
        c.inv("toggle_is_data0_or_data1", bits(O["tx_pid_toggle"], 1) == 0)

        # ---- ensures, from the statement
        c.ensure("fresh_poll_is_answered_with_the_value_sampled_at_the_poll",
                 z3.Implies(z3.And(is_(IDLE), poll), z3.And(
                     n(O["tx_valid"]) == 1, n(O["tx_first"]) == 1, n(O["tx_payload"]) == wire_byte(I["signal"], bvc(0, CW)),
                     n(val) == I["signal"])),
                 clause="each time the host polls the endpoint, it receives the value of the monitored signal sampled when the request arrived")
        c.ensure("transmitting_exactly_during_a_response", (O["tx_valid"] == 1) == is_(SEND),
                 clause="a response packet (and nothing else) is sent per poll: valid from the cycle after the poll until the last byte is accepted")
        c.ensure("bytes_in_configured_order", z3.Implies(is_(SEND), O["tx_payload"] == wire_byte(val, nsent)),
                 clause=f"serialized in the configured byte order ({endianness}-endian, {nbytes} byte(s))")
        c.ensure("packet_framing", z3.And((O["tx_first"] == 1) == z3.And(is_(SEND), nsent == 0),
                                          (O["tx_last"] == 1) == z3.And(is_(SEND), last_byte)),
                 clause="the packet is exactly the bytes of the value: first on byte 0, last on the final byte")
        c.ensure("packet_ends_after_all_bytes",
                 z3.Implies(is_(SEND), (n(O["tx_valid"]) == 0) == z3.And(rdy, last_byte)),
                 clause="the value is serialized as exactly ceil(width/8) bytes")
        c.ensure("retry_repeats_value",
                 z3.Implies(z3.And(is_(RETRY), poll), z3.And(
                     n(O["tx_valid"]) == 1, n(O["tx_first"]) == 1, n(O["tx_payload"]) == wire_byte(val, bvc(0, CW)),
                     n(val) == val)),
                 clause="if the host does not acknowledge, the retry carries the same value")
        c.ensure("value_frozen_until_acked", z3.Implies(z3.Not(is_(IDLE)), n(val) == val),
                 clause="the retry carries the same value (the sampled value cannot change while a transfer is outstanding)")
        acked = z3.And(is_(AWAIT), ack)
        c.ensure("toggle_advances_exactly_on_ack",
                 n(O["tx_pid_toggle"]) == z3.If(acked, O["tx_pid_toggle"] ^ 1, O["tx_pid_toggle"]),
                 clause="the retry carries the same toggle, and the toggle advances only after an ACK (of a completely sent packet), DATA0<->DATA1")
        c.ensure("toggle_is_data0_or_data1", z3.ULE(O["tx_pid_toggle"], 1), clause="toggle is DATA0/DATA1")
        c.ensure("read_complete_iff_acked", (O["status_read_complete"] == 1) == acked,
                 clause="status_read_complete pulses exactly when the host ACKs a completely sent packet")
        c.ensure("after_ack_next_poll_resamples", z3.Implies(acked, n(ph) == IDLE),
                 clause="each poll after an acknowledged one samples the signal anew")
        c.ensure("unacked_packet_is_kept_for_retry",
                 z3.Implies(z3.And(is_(AWAIT), z3.Not(ack)), z3.And(n(ph) != IDLE, n(ph) != SEND)),
                 clause="if the host does not acknowledge, the next poll is a retry")

        # ---- vacuity
        c.cover("acked", acked)
        c.cover("retry_poll", z3.And(is_(RETRY), poll))
        c.cover("retry_then_acked_with_toggle_1", z3.And(acked, O["tx_pid_toggle"] == 1))
        c.cover("last_byte", z3.And(O["tx_valid"] == 1, O["tx_last"] == 1, rdy))
        if nbytes > 1:
            c.cover("last_byte_differs_from_first", z3.And(is_(SEND), last_byte, O["tx_payload"] != wire_byte(val, bvc(0, CW))))
        c.cover("signal_changed_while_outstanding", z3.And(is_(RETRY), poll, I["signal"] != val))
        c.cover_depth = 3 * nbytes + 14
    return contract


def contracts(tier):
    widths = (1, 8, 12, 16, 24) if tier == "quick" else (1, 2, 7, 8, 9, 12, 16, 17, 24, 32, 33, 64)
    for w in widths:
        for e in ("little", "big"):
            yield ("USBSignalInEndpoint", f"width{w}_{e}", make(w, e))
    # signal_domain != "usb" (also in the quick tier: the only configuration in which the latch's source could be confused with
    # the 1-bit synchroniser copy)
    yield ("USBSignalInEndpoint", "width16_little_signal_domain_sync", make(16, "little", signal_domain="sync"))
    if tier != "quick":
        yield ("USBSignalInEndpoint", "width16_little_ep0", make(16, "little", epnum=0))
        yield ("USBSignalInEndpoint", "width16_big_ep15", make(16, "big", epnum=15))
        # signal_domain != "usb": elaborate() instantiates an FFSynchronizer on a 1-bit copy whose output is never used;
        # the latch still samples `signal` directly, so (with all domains ticking together) the same contract holds.
        # Clock-domain-crossing safety of that direct sample is outside this property.
