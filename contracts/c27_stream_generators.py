"""C27 — constant-stream generators emit exactly the requested slice (ConstantStreamGenerator, StreamSerializer).

Reference model (ghost state, driven by the unit's inputs only — start, start_position, max_length, ready):

    ph   0 = idle, 1 = streaming, 2 = done pulse
    gs   start position (in words) sampled in the cycle the start strobe was accepted
    gm   maximum length in bytes sampled in that cycle           (constant = data length when there is no max_length port)
    gi   words accepted by the consumer so far in this transfer

    N        = min(gm, L - bpw*gs)            bytes to send  (L = length of the constant in bytes, bpw = bytes per word)
    final(i) = (i+1)*bpw >= N                 word i is the last one
    nb(i)    = min(bpw, N - i*bpw)            bytes carried by word i

    idle      --start & max_length>0-->  streaming(gi=0)        (start & max_length==0: stays idle, nothing emitted)
    streaming --ready & ~final--> gi+1     --ready & final--> done --> idle

Ensures pin every stream output to the model: valid (per-byte mask), the valid byte lanes of payload = the constant's
bytes from bpw*(gs+gi) on (reference = the `bytes` object handed to the constructor, not the ROM initialiser), first,
last, done, output_length.  The invariant is the abstraction map FSM/position/bytes_sent/ROM read register <-> model.

start_position is a *word* index for generators whose payload is wider than a byte (that is what the code compares
position_in_stream with); "start position within the data" (statement) is required: start_position < number of words.

Byte order inside a word: 'little' — lane j holds byte j of the word; 'big' — the word is int.from_bytes(chunk,'big'),
so the n bytes carried by a word appear in lanes n-1 .. 0 (first byte in the highest valid lane).

NOT PROVED / findings, see EXPLANATION.
"""
import os
import z3
from hwv.extract import BindingError
from hwv.contract import B, bvc, bits, zx
from luna.gateware.stream.generator import ConstantStreamGenerator, StreamSerializer
from luna.gateware.stream import StreamInterface
from luna.gateware.usb.stream import SuperSpeedStreamInterface

W = 18   # width of all spec-side arithmetic (lengths < 2^16, so nothing wraps)

EXPLANATION = (
    "Unbounded inductive refinement proof of ConstantStreamGenerator (8-bit, 16-bit, 32-bit little endian; with max_length, "
    "and without it on a tree where that variant elaborates; sync/usb/ss domains; enumerated constants) and "
    "StreamSerializer (with and without max_length) against a reference model "
    "written from the statement.  Assumptions: start_position < number of words at the start strobe; start_position "
    "(and, for the serializer, max_length) held stable while the stream is active, because `first` (and the "
    "serializer's `last`) are computed from the live inputs.  Big-endian 32-bit generator WITH a max_length port: "
    "a max_length-truncated final word marks the LOW lanes valid, which in a big-endian word are the LAST bytes of the "
    "word, so the bytes flagged valid are not the next bytes of the constant — reported as a finding (no in-tree user "
    "of data_endianness='big'); big endian without max_length is proved.")
ASSUMPTIONS = [
    "start_position is a word index and is < number of words when start is accepted (statement: 'start position within the data')",
    "start_position is held stable from the accepted start until done (first is computed from the live input)",
    "StreamSerializer: max_length is held stable from the accepted start until done (it is not latched by the unit)",
]
BOUNDED = []


def lookup(idx, table, width):
    e = bvc(0, width)
    for i in reversed(range(len(table))):
        e = z3.If(idx == i, bvc(table[i], width), e)
    return e


def times(x, k):
    """x * k for k a power of two, as a shift (keeps the bit-blasted formulas small)."""
    sh = k.bit_length() - 1
    assert 1 << sh == k
    return x if sh == 0 else z3.Concat(z3.Extract(x.size() - 1 - sh, 0, x), bvc(0, sh))


def umin(a, b):
    return z3.If(z3.ULE(a, b), a, b)


def reg(ts, name):
    r = [v for v in ts.state.values() if str(v) == ts.prefix + name]
    if len(r) != 1:
        raise BindingError(f"no register named {name!r}")
    return r[0]


class Model:
    """The reference model described in the module docstring; shared by both units."""

    def __init__(self, c, I, L, bpw, has_sp, has_ml, latch_ml=True):
        self.L, self.bpw = L, bpw
        NW = (L + bpw - 1) // bpw
        self.NW = NW
        ph = self.ph = c.ghost("phase", 2, init=0)
        gs = self.gs = c.ghost("start_pos", W, init=0)
        gm = self.gm = c.ghost("max_len", W, init=L)
        gi = self.gi = c.ghost("words_done", W, init=0)
        self.start = I["start"] == 1
        self.ready = I["ready"] == 1
        self.sp = zx(I["i_start_position"], W) if has_sp else bvc(0, W)
        self.ml = zx(I["i_max_length"], W) if has_ml else bvc(L, W)
        self.idle, self.streaming, self.donep = ph == 0, ph == 1, ph == 2
        self.accept_start = z3.And(self.idle, self.start, z3.UGT(self.ml, 0))
        self.N = umin(gm, bvc(L, W) - times(gs, bpw))
        self.i0 = times(gi, bpw)
        self.final = z3.UGE(self.i0 + bpw, self.N)
        self.nb = z3.If(self.final, self.N - self.i0, bvc(bpw, W))
        self.take = z3.And(self.streaming, self.ready)
        c.set_next(ph, z3.If(self.idle, z3.If(self.accept_start, bvc(1, 2), bvc(0, 2)),
                             z3.If(self.streaming, z3.If(z3.And(self.take, self.final), bvc(2, 2), bvc(1, 2)), bvc(0, 2))))
        c.set_next(gs, z3.If(self.accept_start, self.sp, gs))
        c.set_next(gm, z3.If(self.accept_start, self.ml, gm))
        c.set_next(gi, z3.If(self.accept_start, bvc(0, W),
                             z3.If(z3.And(self.take, z3.Not(self.final)), gi + 1, gi)))
        c.require("start_position_within_data", z3.Implies(z3.And(self.idle, self.start), z3.ULT(self.sp, NW)),
                  why="statement: 'start position within the data' (word index below the number of words)")
        if has_sp:
            c.require("start_position_stable_while_active", z3.Implies(self.streaming, self.sp == gs),
                      why="`first` compares the position with the live start_position input; the user holds it during a transfer")
        # model well-formedness (part of the invariant)
        c.inv("model_wellformed", z3.And(
            z3.ULE(ph, 2), z3.ULT(gs, NW), z3.UGT(gm, 0), z3.ULT(gm, 1 << 16),
            z3.Implies(z3.Not(self.idle), z3.And(z3.ULT(self.i0, self.N), z3.ULT(gi, NW)))))
        if not has_ml:
            c.inv("model_max_is_data_length", gm == L)


def make_generator(data, kind="byte", endian="little", mlw=None, domain="sync"):
    def contract(c):
        kw = dict(constant_data=data, domain=domain, max_length_width=mlw)
        if kind == "wide":
            kw.update(stream_type=SuperSpeedStreamInterface, data_endianness=endian)
        elif kind == "w16":
            kw.update(data_width=16, data_endianness=endian)
        d = ConstantStreamGenerator(**kw)
        bpw = {"byte": 1, "w16": 2, "wide": 4}[kind]
        L = len(data)
        NW = (L + bpw - 1) // bpw
        VW = len(d.stream.valid)
        ports = {"start": d.start, "done": d.done, "valid": d.stream.valid, "ready": d.stream.ready,
                 "first": d.stream.first, "last": d.stream.last, "payload": d.stream.payload}
        has_sp = len(d.start_position) > 0
        if has_sp:
            ports["i_start_position"] = d.start_position
        if mlw:
            ports["i_max_length"] = d.max_length
            ports["output_length"] = d.output_length
        ts = c.unit(d, ports)
        I, O = ts.inputs, ts.outputs
        m = Model(c, I, L, bpw, has_sp, bool(mlw))
        fsm = ts.fsm("fsm_state")

        # ---- abstraction map
        c.inv("fsm_legal", fsm.legal())
        c.inv("idle_iff_model_idle", fsm.is_("IDLE") == m.idle)
        c.inv("streaming_iff_model_streaming", fsm.is_("STREAMING") == m.streaming)
        c.inv("done_iff_model_done", fsm.is_("DONE") == m.donep)
        word = m.gs + m.gi                                   # index of the word on offer
        if NW > 1:
            pos = reg(ts, "position_in_stream")
            c.inv("position_is_start_plus_words_done", z3.Implies(m.streaming, zx(pos, W) == word))
        if mlw:
            c.inv("bytes_sent_counts_accepted_bytes", z3.Implies(m.streaming, zx(reg(ts, "bytes_sent"), W) == m.i0))
            c.inv("max_length_latched", z3.Implies(z3.Not(m.idle), zx(reg(ts, "max_length"), W) == m.gm))
        # ROM read register holds the word on offer: every lane that exists in the constant
        rp = ts.sig("rom_read_port__data")
        chunks = [data[bpw * p: bpw * p + bpw] for p in range(NW)]
        def lane_tab(j):       # lane j of word p as stored: (exists, value)
            ex, val = [], []
            for ch in chunks:
                r = len(ch)
                ex.append(1 if j < r else 0)
                val.append((ch[j] if endian == "little" else ch[r - 1 - j]) if j < r else 0)
            return ex, val
        c.inv("read_register_is_word_on_offer", z3.Implies(m.streaming, z3.And(*[
            bits(rp, 8 * j + 7, 8 * j) == lookup(word, lane_tab(j)[1], 8) for j in range(bpw)])))   # padding lanes read as zero

        # ---- ensures (statement, clause by clause)
        mask = lambda n: lookup(n, [(1 << k) - 1 for k in range(bpw + 1)], VW) if VW > 1 else bvc(1, 1)
        c.ensure("valid_mask_exact", O["valid"] == z3.If(m.streaming, mask(m.nb), bvc(0, VW)),
                 clause="a started generator emits ...; per-byte valid bits covering exactly the bytes sent in a partial final "
                        "word (all bytes on other words); nothing is emitted outside a transfer")
        D = lambda idx: lookup(idx, list(data), 8)
        base = times(word, bpw)
        lanes = []
        for j in range(bpw):
            k = bvc(j, W) if endian == "little" else m.nb - 1 - j       # which of the word's bytes sits in lane j
            lanes.append(z3.Implies(z3.ULT(bvc(j, W), m.nb), bits(O["payload"], 8 * j + 7, 8 * j) == D(base + k)))
        c.ensure("payload_valid_lanes_are_data_from_start_position", z3.Implies(m.streaming, z3.And(*lanes)),
                 clause="emits the data from the start position onward, limited to the maximum length in bytes "
                        "(k-th valid byte of word i = constant[bpw*(start+i) + k])")
        c.ensure("first_iff_first_word", (O["first"] == 1) == z3.And(m.streaming, m.gi == 0), clause="'first' on the first word (only)")
        c.ensure("last_iff_final_word", (O["last"] == 1) == z3.And(m.streaming, m.final),
                 clause="'last' on the final word (only): the word that reaches min(max length, remaining data)")
        c.ensure("done_iff_cycle_after_final_word_taken", (O["done"] == 1) == m.donep,
                 clause="and then pulses 'done' (exactly one cycle, right after the final word is accepted)")
        c.ensure("nothing_when_limit_zero",
                 z3.Implies(z3.And(m.idle, m.start, m.ml == 0), z3.And(c.nx(O["valid"]) == 0, c.nx(O["done"]) == 0,
                                                                      c.nx(O["first"]) == 0, c.nx(O["last"]) == 0)),
                 clause="it emits nothing when the length limit is zero")
        c.ensure("word_held_until_ready", z3.Implies(z3.And(m.streaming, z3.Not(m.ready)),
                                                     z3.And(c.nx(O["valid"]) == O["valid"], c.nx(O["payload"]) == O["payload"],
                                                            c.nx(O["last"]) == O["last"])),
                 clause="all ready patterns: a word on offer is held unchanged until it is accepted")
        if mlw:
            c.ensure("output_length_is_min_of_limit_and_data", z3.Implies(z3.Not(m.idle), zx(O["output_length"], W) == umin(m.gm, bvc(L, W))),
                     clause="output_length (documented): the lesser of the data length and max_length for the stream being output")

        # ---- covers
        c.cover("done_pulse", O["done"] == 1)
        c.cover("stall_on_last_word", z3.And(m.streaming, m.final, z3.Not(m.ready)))
        if mlw:
            c.cover("start_refused_limit_zero", z3.And(m.idle, m.start, m.ml == 0))
        if NW > 1:
            c.cover("second_word", z3.And(m.streaming, m.gi == 1))
            c.cover("nonzero_start_position", z3.And(m.streaming, m.gs != 0, m.take))
            c.cover("ends_by_data_length_from_offset", z3.And(m.take, m.final, m.gs != 0, m.gi != 0) if NW > 2 else z3.And(m.take, m.final, m.gs != 0))
        if mlw and L > 1:
            c.cover("ends_by_max_length", z3.And(m.take, m.final, z3.ULT(m.gm, L - times(m.gs, bpw))))
        if VW > 1:
            c.cover("partial_final_word", z3.And(m.take, m.final, z3.ULT(m.nb, bpw))) if (L % bpw or mlw) else None
        c.cover_depth = min(NW + 8, 40)
    return contract


def make_serializer(n, mlw=None, domain="sync", width=8):
    def contract(c):
        d = StreamSerializer(n, domain=domain, data_width=width, max_length_width=mlw)
        ports = {"start": d.start, "done": d.done, "valid": d.stream.valid, "ready": d.stream.ready,
                 "first": d.stream.first, "last": d.stream.last, "payload": d.stream.payload}
        for i in range(n):
            ports[f"datum_{i}"] = d.data[i]
        has_sp = len(d.start_position) > 0
        if has_sp:
            ports["i_start_position"] = d.start_position
        if mlw:
            ports["i_max_length"] = d.max_length
        ts = c.unit(d, ports)
        I, O = ts.inputs, ts.outputs
        # the serializer counts *words* of its array (max_length is in array elements; for the 8-bit default = bytes)
        m = Model(c, I, n, 1, has_sp, bool(mlw))
        if mlw:
            c.require("max_length_stable_while_active", z3.Implies(m.streaming, m.ml == m.gm),
                      why="StreamSerializer does not latch max_length; the user holds it during a transfer")
        fsm = ts.fsm("fsm_state")
        c.inv("fsm_legal", fsm.legal())
        c.inv("idle_iff_model_idle", fsm.is_("IDLE") == m.idle)
        c.inv("streaming_iff_model_streaming", fsm.is_("STREAMING") == m.streaming)
        c.inv("done_iff_model_done", fsm.is_("DONE") == m.donep)
        word = m.gs + m.gi
        if n > 1:
            c.inv("position_is_start_plus_words_done", z3.Implies(m.streaming, zx(reg(ts, "position_in_stream"), W) == word))
        c.try_inv("bytes_sent_counts_accepted_words", lambda: z3.Implies(m.streaming, zx(reg(ts, "bytes_sent"), W) == m.gi))

        cur = bvc(0, width)
        for i in reversed(range(n)):
            cur = z3.If(word == i, I[f"datum_{i}"], cur)
        c.ensure("valid_iff_streaming", (O["valid"] == 1) == m.streaming,
                 clause="serializer: a started serializer emits ...; nothing outside a transfer")
        c.ensure("payload_is_array_element", z3.Implies(m.streaming, O["payload"] == cur),
                 clause="serializer behaves the same for its runtime data array: word i = data[start + i] (current array value)")
        c.ensure("first_iff_first_word", (O["first"] == 1) == z3.And(m.streaming, m.gi == 0), clause="'first' on the first word (only)")
        c.ensure("last_iff_final_word", (O["last"] == 1) == z3.And(m.streaming, m.final), clause="'last' on the final word (only)")
        c.ensure("done_iff_cycle_after_final_word_taken", (O["done"] == 1) == m.donep, clause="and then pulses 'done'")
        c.ensure("nothing_when_limit_zero",
                 z3.Implies(z3.And(m.idle, m.start, m.ml == 0), z3.And(c.nx(O["valid"]) == 0, c.nx(O["done"]) == 0)),
                 clause="it emits nothing when the length limit is zero")
        c.cover("done_pulse", O["done"] == 1)
        c.cover("stall_on_last_word", z3.And(m.streaming, m.final, z3.Not(m.ready)))
        if n > 1:
            c.cover("second_word", z3.And(m.streaming, m.gi == 1))
            c.cover("nonzero_start_position", z3.And(m.streaming, m.gs != 0, m.take))
        if mlw and n > 1:
            c.cover("ends_by_max_length", z3.And(m.take, m.final, z3.ULT(m.gm, n - m.gs)))
            c.cover("start_refused_limit_zero", z3.And(m.idle, m.start, m.ml == 0))
        c.cover_depth = min(n + 8, 40)
    return contract


def _data(n, seed=1):
    # distinct-ish, non-zero, position-dependent bytes (so that a wrong index gives a wrong byte)
    return bytes(((i * 37 + 11 * seed + (i >> 3)) % 251) + 1 for i in range(n))


def _nomax_elaborates():
    """ConstantStreamGenerator(max_length_width=None): does the real elaborate() run at all?"""
    from amaranth.hdl import Fragment
    try:
        Fragment.get(ConstantStreamGenerator(b"ab"), None)
        return None
    except Exception as e:            # noqa: BLE001  (AttributeError: 'int' object has no attribute 'eq' on the unchanged tree)
        return f"{type(e).__name__}: {e}"


NOMAX_ERROR = _nomax_elaborates()
if NOMAX_ERROR:
    EXPLANATION += ("  FINDING: ConstantStreamGenerator without max_length_width cannot be elaborated (" + NOMAX_ERROR +
                    "): elaborate() does `bytes_sent.eq(0)` / `max_length.eq(...)` on Python ints; the 'without max_length' "
                    "configurations are therefore not under contract on this tree (they are, and pass, with "
                    "proposed_fixes/C27_generator_without_max_length.diff).")


def contracts(tier):
    quick = tier == "quick"
    gen_mlws = ((None, 16) if quick else (None, 8, 16)) if not NOMAX_ERROR else ((16,) if quick else (8, 16))
    gen_mlws2 = (None, 16) if not NOMAX_ERROR else (16,)
    if quick:
        for n in (1, 5, 18):
            for mlw in gen_mlws:
                yield ("ConstantStreamGenerator", f"byte_len{n}_{'max%d' % mlw if mlw else 'nomax'}",
                       make_generator(_data(n), "byte", "little", mlw, "usb" if n % 2 else "sync"))
        for n in (1, 6, 11):
            for mlw in gen_mlws:
                yield ("ConstantStreamGenerator", f"wide_little_len{n}_{'max%d' % mlw if mlw else 'nomax'}",
                       make_generator(_data(n, 2), "wide", "little", mlw, "ss"))
        if not NOMAX_ERROR:
            yield ("ConstantStreamGenerator", "wide_big_len7_nomax", make_generator(_data(7, 2), "wide", "big", None, "ss"))
        if True:      # big-endian + max_length: known finding (see EXPLANATION and known_findings.json)
            yield ("ConstantStreamGenerator", "wide_big_len7_max16", make_generator(_data(7, 2), "wide", "big", 16, "ss"))
        yield ("ConstantStreamGenerator", "w16_little_len5_max16", make_generator(_data(5, 3), "w16", "little", 16, "sync"))
        # a max_length register only just wide enough for the limit, on a 4-byte-per-word stream (position + 4 needs one bit more)
        yield ("ConstantStreamGenerator", "wide_little_len40_max4", make_generator(_data(40, 2), "wide", "little", 4, "ss"))
        yield ("StreamSerializer", "len2_nomax", make_serializer(2, None, "sync"))       # domains as in the thorough list below
        yield ("StreamSerializer", "len5_max8", make_serializer(5, 8, "usb"))           # (same name = same configuration)
        return
    # ---- 8-bit generator
    lens = (1, 2, 3, 5, 8, 18) if quick else (1, 2, 3, 4, 7, 8, 9, 17, 33, 64, 255, 256, 300)
    for n in lens:
        for mlw in gen_mlws:
            if mlw == 8 and n > 255:
                continue
            yield ("ConstantStreamGenerator", f"byte_len{n}_{'max%d' % mlw if mlw else 'nomax'}",
                   make_generator(_data(n), "byte", "little", mlw, "usb" if n % 2 else "sync"))
    # ---- 32-bit generator (SuperSpeedStreamInterface: 4 valid bits)
    wlens = (1, 3, 4, 6, 11, 18) if quick else (1, 2, 3, 4, 5, 7, 8, 9, 13, 16, 19, 66, 130)
    for n in wlens:
        for endian in ("little", "big"):
            for mlw in gen_mlws2:
                if endian == "big" and mlw and n not in (7, 13):
                    continue        # big endian + max_length is a known finding: two representative lengths are enough
                yield ("ConstantStreamGenerator", f"wide_{endian}_len{n}_{'max%d' % mlw if mlw else 'nomax'}",
                       make_generator(_data(n, 2), "wide", endian, mlw, "ss"))
    yield ("ConstantStreamGenerator", "wide_little_len40_max4", make_generator(_data(40, 2), "wide", "little", 4, "ss"))
    yield ("ConstantStreamGenerator", "wide_little_len40_max5", make_generator(_data(40, 2), "wide", "little", 5, "ss"))
    yield ("ConstantStreamGenerator", "byte_len40_max4", make_generator(_data(40), "byte", "little", 4, "usb"))
    # ---- 16-bit payload, single valid bit, bytes constant
    for n in ((5, 8) if quick else (1, 2, 3, 4, 5, 8, 9, 18)):
        for mlw in gen_mlws2:
            yield ("ConstantStreamGenerator", f"w16_little_len{n}_{'max%d' % mlw if mlw else 'nomax'}",
                   make_generator(_data(n, 3), "w16", "little", mlw, "sync"))
    # ---- serializer
    for n in ((2, 5, 8) if quick else (1, 2, 3, 4, 5, 6, 7, 8, 9, 16, 18)):
        for mlw in (None, 8):
            yield ("StreamSerializer", f"len{n}_{'max%d' % mlw if mlw else 'nomax'}", make_serializer(n, mlw, "usb" if n % 2 else "sync"))
