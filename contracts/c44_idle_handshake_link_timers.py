"""C44 — Idle handshake and U0 link timers meet their timing rules.

Units: IdleHandshakeHandler (luna/gateware/usb/usb3/link/idle.py), LinkMaintenanceTimers (link/timers.py), domain `ss`.

Statement clauses and how they are read
---------------------------------------
(1) "The idle handshake completes only after at least eight consecutive valid logical-idle symbols were received while
    at least sixteen symbols have been sent since it started."
    The receive stream carries four symbols per word; a word counts only when `sink.valid` is high; logical idle
    descrambles to data 0 / ctrl 0.  Ghosts (all defined from the ports only):
      prev_idle  – the most recent *valid* word consisted of four logical-idle symbols (invalid cycles are no symbols, so
                   they neither contribute to nor break the run: the most permissive reading of "consecutive");
      seen       – since `enable` was last low, some valid all-idle word arrived (while enabled) directly after another
                   valid all-idle word, i.e. eight consecutive valid logical-idle symbols were received;
      en_cycles  – number of directly preceding consecutive cycles with `enable` high (4 symbols are sent per cycle).
    Ensures:  complete ⇒ seen ("only after 8 idle"), complete ⇒ enable ∧ en_cycles ≥ 4 ("16 sent since it started").
    The converse (from the class docstring, so that a handshake that never completes is not accepted): enabled for ≥ 4
    cycles and two back-to-back valid idle words seen while enabled ⇒ complete.  The converse uses the *strictest*
    reading (back-to-back valid cycles) so that it does not dictate how invalid cycles are treated.
    idle_detected (docstring: "the last eight word-aligned symbols detected have been logical idle") gets the same
    sandwich.
(2) "In U0 a keepalive is scheduled whenever no link command has been sent for the keepalive interval (never later than
    10 ms)".  U0 = `enable` (wired to link_ready).  Ghost quiet_tx = number of directly preceding consecutive cycles with
    enable ∧ ¬link_command_transmitted (saturating).  Ensures: quiet_tx == K-1 ⇒ schedule_keepalive (K = keepalive
    interval in cycles; the strobe appears in the K-th cycle), schedule_keepalive ⇒ quiet_tx ≥ K-1, and - for the
    parenthesis - the number of consecutive U0 cycles with neither a transmitted link command nor a keepalive strobe is
    always < 10 ms (the free-running timer wraps, so the strobe repeats every 2^bits cycles).
(3) "recovery is requested within one cycle of 1 ms without any received link command or header packet, and never
    earlier": ghost quiet_rx likewise over enable ∧ ¬(link_command_received ∨ packet_received);
    quiet_rx == N-1 ⇒ transition_to_recovery;  transition_to_recovery ⇒ quiet_rx ≥ N-1.

All ensures are unbounded (1-induction).  The N-cycle covers of the 125 MHz / 250 MHz configurations are `reach=False`
(satisfiable with the invariant); a scaled 200 kHz configuration (K=2, N=200) has the keepalive covers reached by BMC from
reset in the quick tier and the 200-cycle-deep recovery cover in the thorough tier.
"""
import z3
from hwv.contract import B, zx, bvc
from luna.gateware.usb.usb3.link.idle import IdleHandshakeHandler
from luna.gateware.usb.usb3.link.timers import LinkMaintenanceTimers

LEVEL = "proof"
EXPLANATION = ("IdleHandshakeHandler: complete/idle_detected sandwiched between the most permissive and the strictest "
               "reading of 'eight consecutive valid logical-idle symbols', 16 symbols sent = 4 enabled cycles. "
               "LinkMaintenanceTimers: strobes pinned to the cycle count since the last event for every history; "
               "configurations enumerated.")
ASSUMPTIONS = ["U0 is the `enable` input of LinkMaintenanceTimers (wired to ltssm.link_ready in USB3LinkLayer)",
               "one receive word = four symbols; a word is received iff sink.valid"]
BOUNDED = []


def sat_inc(g, w):
    return z3.If(g == (1 << w) - 1, g, g + 1)


# ------------------------------------------------------------------------------------------------ idle handshake
def idle_contract(c):
    d = IdleHandshakeHandler()
    ts = c.unit(d, {"i_enable": d.enable, "i_valid": d.sink.valid, "i_data": d.sink.data, "i_ctrl": d.sink.ctrl,
                    "o_idle_detected": d.idle_detected, "o_complete": d.idle_handshake_complete})
    I, O = ts.inputs, ts.outputs
    enable, valid = B(I["i_enable"]), B(I["i_valid"])
    word_idle = z3.And(I["i_data"] == 0, I["i_ctrl"] == 0)
    rx_idle = z3.And(valid, word_idle)                        # four valid logical-idle symbols arrive in this cycle
    detected, complete = B(O["o_idle_detected"]), B(O["o_complete"])

    # --- ghosts (ports only)
    prev_idle = c.ghost("prev_idle", 1)      # most recent valid word was all logical idle (stream reading)
    c.set_next(prev_idle, z3.If(valid, word_idle, B(prev_idle)))
    prev_b2b = c.ghost("prev_b2b", 1)        # the previous *cycle* carried a valid all-idle word (strict reading)
    c.set_next(prev_b2b, rx_idle)
    eight_now = z3.And(rx_idle, B(prev_idle))                 # the 8th of eight consecutive valid idle symbols arrives now
    eight_now_strict = z3.And(rx_idle, B(prev_b2b))
    seen = c.ghost("seen", 1)
    c.set_next(seen, z3.And(enable, z3.Or(B(seen), eight_now)))
    seen_strict = c.ghost("seen_strict", 1)
    c.set_next(seen_strict, z3.And(enable, z3.Or(B(seen_strict), eight_now_strict)))
    EW = 4
    en_cycles = c.ghost("en_cycles", EW)
    c.set_next(en_cycles, z3.If(enable, sat_inc(en_cycles, EW), bvc(0, EW)))
    NEED = 4                                                  # 16 symbols / 4 symbols per cycle

    # --- abstraction
    last_word, last_ctrl = ts.sig("last_word"), ts.sig("last_ctrl")
    seen_idle, counter = ts.sig("seen_idle"), ts.sig("enable_counter")
    last_idle = z3.And(last_word == 0, last_ctrl == 0)
    c.inv("strict_implies_stream", z3.And(z3.Implies(B(prev_b2b), B(prev_idle)), z3.Implies(B(seen_strict), B(seen))))
    c.inv("last_word_idle_only_if_received", z3.Implies(last_idle, B(prev_idle)))
    c.inv("last_word_idle_if_just_received", z3.Implies(B(prev_b2b), last_idle))
    c.inv("seen_idle_only_if_seen", z3.Implies(B(seen_idle), B(seen)))
    c.inv("seen_idle_if_seen_strict", z3.Implies(B(seen_strict), B(seen_idle)))
    c.inv("counter_is_enabled_cycles", zx(counter, EW) == z3.If(z3.UGE(en_cycles, NEED), bvc(NEED, EW), en_cycles))
    c.inv("seen_only_while_enabled", z3.Implies(en_cycles == 0, z3.Not(B(seen))))

    # --- ensures
    c.ensure("complete_only_after_eight_idle", z3.Implies(complete, B(seen)),
             clause="completes only after at least eight consecutive valid logical-idle symbols were received")
    c.ensure("complete_only_after_sixteen_sent", z3.Implies(complete, z3.And(enable, z3.UGE(en_cycles, NEED))),
             clause="while at least sixteen symbols have been sent since it started")
    c.ensure("complete_when_both_conditions_met",
             z3.Implies(z3.And(enable, z3.UGE(en_cycles, NEED), B(seen_strict)), complete),
             clause="(docstring) asserted when we've seen IDLE at least once and we've been enabled long enough")
    c.ensure("idle_detected_only_on_eight_idle", z3.Implies(detected, eight_now),
             clause="(docstring) idle_detected: the last eight symbols detected have been logical idle [valid symbols]")
    c.ensure("idle_detected_on_two_idle_words", z3.Implies(eight_now_strict, detected),
             clause="(docstring) idle_detected asserted when the last eight symbols have been logical idle")
    c.ensure("not_complete_when_disabled", z3.Implies(z3.Not(enable), z3.Not(complete)),
             clause="since it started: no completion outside a handshake")

    # --- vacuity
    c.cover("complete", complete)
    c.cover("complete_at_earliest", z3.And(complete, en_cycles == NEED))
    c.cover("complete_with_invalid_gap", z3.And(complete, z3.Not(B(seen_strict))))
    c.cover("enabled_long_but_no_idle", z3.And(enable, z3.UGE(en_cycles, NEED), z3.Not(complete)))
    c.cover("idle_detected", detected)
    c.cover("invalid_zero_word", z3.And(z3.Not(valid), word_idle, B(prev_idle)))


# ------------------------------------------------------------------------------------------------ link timers
def timer_clauses(c, freq, enable, tx, rx, keepalive, recovery, ka_t, rec_t, reach, deep):
    """Clauses (2) and (3) for one LinkMaintenanceTimers instance at ss clock `freq`.  enable / tx / rx are the events "in U0", "a
    link command is sent", "a link command or header packet is received" and keepalive / recovery the two requests, as z3 Bools
    (ports of the stand-alone unit, or the corresponding signals of the parent for the instance inside USB3LinkLayer);
    ka_t / rec_t: the unit's two counters.  reach: the keepalive covers are reached by BMC; deep: the recovery cover too;
    reach=None: covers only as satisfiability with the invariant."""
    # From the statement / the documented intervals, in cycles of this clock (not taken from the elaborated netlist)
    K = int(10e-6 * freq + 1e-6)          # keepalive interval: the whole number of cycles not exceeding the nominal 10 us (1e-6: float noise)
    N = int(round(1e-3 * freq))           # 1 ms
    TEN_MS = int(round(10e-3 * freq))

    def quiet_ghost(name, event, timer, limit):
        tw = timer.size()
        w = max(tw, limit.bit_length()) + 1
        g = c.ghost(name, w)
        c.set_next(g, z3.If(z3.Or(event, z3.Not(enable)), bvc(0, w), sat_inc(g, w)))
        sat = (1 << w) - 1
        c.inv(f"{name}_timer_is_quiet_time", z3.Implies(g != sat, timer == z3.Extract(tw - 1, 0, g)))
        return g, w

    quiet_tx, wt = quiet_ghost("quiet_tx", tx, ka_t, K)
    quiet_rx, wr = quiet_ghost("quiet_rx", rx, rec_t, N)

    # --- keepalive
    c.ensure("keepalive_at_interval", z3.Implies(quiet_tx == K - 1, keepalive),
             clause="In U0 a keepalive is scheduled whenever no link command has been sent for the keepalive interval")
    c.ensure("keepalive_not_before_interval", z3.Implies(keepalive, z3.UGE(quiet_tx, K - 1)),
             clause="... whenever no link command has been sent for the keepalive interval [and only then]")
    # "(never later than 10 ms)": consecutive U0 cycles with neither a sent link command nor a keepalive strobe
    tw = ka_t.size()
    gw = max(tw, TEN_MS.bit_length()) + 1
    gap = c.ghost("ka_gap", gw)
    c.set_next(gap, z3.If(z3.Or(tx, z3.Not(enable), keepalive), bvc(0, gw), sat_inc(gap, gw)))
    fired = c.ghost("ka_fired", 1)       # a keepalive strobe happened since the last sent link command / U0 entry
    c.set_next(fired, z3.And(z3.Not(tx), enable, z3.Or(B(fired), keepalive)))
    c.inv("ka_gap_before_first_strobe",
          z3.Implies(z3.Not(B(fired)), z3.And(gap == zx(ka_t, gw), z3.ULE(zx(ka_t, gw), K - 1))))
    c.inv("ka_gap_after_strobe", z3.Implies(B(fired), gap == zx(ka_t - bvc(K % (1 << tw), tw), gw)))
    c.ensure("keepalive_never_later_than_10ms", z3.ULT(gap, TEN_MS),
             clause="(never later than 10 ms)")

    # --- recovery
    c.ensure("recovery_at_1ms", z3.Implies(quiet_rx == N - 1, recovery),
             clause="recovery is requested within one cycle of 1 ms without any received link command or header packet")
    c.ensure("recovery_never_earlier", z3.Implies(recovery, z3.UGE(quiet_rx, N - 1)),
             clause="and never earlier")

    # --- vacuity
    if reach is None:
        c.cover("keepalive", keepalive, reach=False)
        c.cover("recovery", z3.And(recovery, quiet_rx == N - 1), reach=False)
        return
    c.cover("keepalive", keepalive, reach=reach or K <= 100)
    c.cover("keepalive_repeats", z3.And(keepalive, B(fired)), reach=reach)
    c.cover("recovery", z3.And(recovery, quiet_rx == N - 1), reach=deep)
    c.cover("rx_event_restarts", z3.And(rx, enable, z3.UGT(quiet_rx, 2)))
    c.cover("tx_event_restarts", z3.And(tx, enable, z3.UGT(quiet_tx, 2)))
    if deep:
        c.cover_depth = N + 8
        c.timeout_s = 900


def timers_contract(freq, reach, deep=False):
    """reach: the keepalive covers are reached by BMC; deep: the (N-cycle deep) recovery cover too."""
    def contract(c):
        d = LinkMaintenanceTimers(ss_clock_frequency=freq)
        ts = c.unit(d, {"i_enable": d.enable, "i_lc_rx": d.link_command_received, "i_pkt_rx": d.packet_received,
                        "i_lc_tx": d.link_command_transmitted,
                        "o_keepalive": d.schedule_keepalive, "o_recovery": d.transition_to_recovery})
        I, O = ts.inputs, ts.outputs
        enable = B(I["i_enable"])
        tx = B(I["i_lc_tx"])
        rx = z3.Or(B(I["i_lc_rx"]), B(I["i_pkt_rx"]))
        keepalive, recovery = B(O["o_keepalive"]), B(O["o_recovery"])
        timer_clauses(c, freq, enable, tx, rx, keepalive, recovery, ts.sig("keepalive_timer"), ts.sig("recovery_timer"), reach, deep)
    return contract


# ===================================================================================== wiring (caller-side obligations)
def link_layer_timers(freq):
    """The LinkMaintenanceTimers and IdleHandshakeHandler instances inside the real USB3LinkLayer(ss_clock_frequency=freq): clauses (2)
    and (3) are re-proved end to end with the events taken where they happen in the link layer - U0 = the LTSSM's link_ready, "a link
    command is sent" = the LinkCommandGenerator (inside HeaderPacketReceiver) has a word on its stream, "a link command or header
    packet is received" = the LinkCommandDetector's (inside PacketTransmitter) new_command or the RawHeaderPacketReceiver's new_packet,
    keepalive = what the header receiver is asked to send, recovery = what the LTSSM is triggered with - so they also decide the
    instance's clock parameter and every connection on the way."""
    def contract(c):
        from .c37_header_receive import LinkLayerUnits, lemmas_receive_stream
        from .c46_ss_in_endpoint import path_of
        U = LinkLayerUnits(c, freq)
        of, S, ts, tm, ltssm, idle = U.of, U.S, U.ts, U.tm, U.ltssm, U.idle
        enable = B(of(ltssm.link_ready))
        tx = B(of(U.gen.source.valid))
        rx = z3.Or(B(of(U.det.new_command)), B(of(U.raw.new_packet)))
        keepalive = B(of(U.hrx.keepalive_required))
        recovery = B(of(tm.transition_to_recovery))
        timer_clauses(c, freq, enable, tx, rx, keepalive, recovery, ts.sig(path_of(ts, tm) + ".keepalive_timer"), ts.sig(path_of(ts, tm) + ".recovery_timer"), None, False)
        c.lemma("timer_inputs_are_the_link_layer_events",
                z3.And(S(tm.enable, ltssm.link_ready), S(tm.link_command_transmitted, U.gen.source.valid),
                       S(tm.link_command_received, U.det.new_command), S(tm.packet_received, U.raw.new_packet)),
                clause="U0 = link_ready; sent link command = link command generator stream valid; received = detector new_command / raw "
                       "header receiver new_packet")
        c.lemma("keepalive_request_reaches_the_header_receiver", S(U.hrx.keepalive_required, tm.schedule_keepalive),
                clause="a keepalive is scheduled: the strobe is the header receiver's keepalive_required")
        c.lemma("recovery_request_reaches_the_ltssm",
                of(ltssm.trigger_link_recovery) == (of(tm.transition_to_recovery) | of(U.hrx.recovery_required) | of(U.ptx.recovery_required)),
                clause="recovery is requested: transition_to_recovery triggers the LTSSM's link recovery (together with the receiver's and "
                       "transmitter's own requests)")
        # clause (1): the idle handshake handler instance
        lemmas_receive_stream(c, U, [("idle_handshake_handler", idle.sink), ("link_command_detector", U.det.sink), ("raw_header_receiver", U.raw.sink)],
                              clause="eight consecutive valid logical-idle symbols were received / received link command or header packet: the "
                                     "handler, the detector and the header receiver look at the physical layer's receive stream")
        c.lemma("idle_handshake_is_driven_by_and_reported_to_the_ltssm",
                z3.And(S(idle.enable, ltssm.perform_idle_handshake), S(ltssm.idle_handshake_complete, idle.idle_handshake_complete)),
                clause="since it started / completes: enable = LTSSM perform_idle_handshake, completion is reported to the LTSSM")
    return contract


def contracts(tier):
    yield ("IdleHandshakeHandler", "", idle_contract)
    yield ("LinkMaintenanceTimers", "125MHz", timers_contract(125e6, False))
    yield ("LinkMaintenanceTimers", "scaled_200kHz", timers_contract(200e3, True))
    yield ("LinkMaintenanceTimers", "62.5MHz", timers_contract(62.5e6, False))       # a clock that is not a whole number of MHz
    yield ("USB3LinkLayer", "wiring_timers_125MHz", link_layer_timers(125e6))
    yield ("USB3LinkLayer", "wiring_timers_100MHz", link_layer_timers(100e6))
    if tier == "thorough":
        yield ("LinkMaintenanceTimers", "scaled_200kHz_deep_cover", timers_contract(200e3, True, deep=True))
        yield ("LinkMaintenanceTimers", "250MHz", timers_contract(250e6, False))
        yield ("LinkMaintenanceTimers", "156.25MHz", timers_contract(156.25e6, False))
        yield ("LinkMaintenanceTimers", "100MHz", timers_contract(100e6, False))
        yield ("LinkMaintenanceTimers", "scaled_1MHz", timers_contract(1e6, False))
