"""C54 — PHYResetController: reset for exactly R cycles, STP during reset and exactly S cycles after, then idle.

Spec machine (ghosts, driven by the observable `trigger` input and the power-on configuration only):
    active : a reset sequence is in progress          t : cycles of that sequence already elapsed (0 .. R+S-1)
    power-on: active = power_on_reset, t = 0
    step    : active          -> t == R+S-1 ? (active:=0, t:=0) : t := t+1        (triggers during a sequence are ignored)
              idle & trigger  -> active := 1, t := 0                                (sequence starts in the next cycle)
Statement clauses:
    phy_reset == active & t <  R            (asserted for exactly R cycles per sequence)
    phy_stop  == active                     (during the reset and for exactly S cycles afterwards; low in idle)
    after the last cycle the machine is idle and a trigger starts a complete new sequence (same ghost machine restarts,
    so the first two clauses cover "ready for the next trigger").

R = reset_length_cycles = ceil(reset_length*f), S = stop_length_cycles = ceil(stop_length*f); both >= 1 here
(zero-length durations are not enumerated: the statement's "asserts ... for exactly the configured number of cycles"
with 0 cycles cannot be met by a three-state FSM that spends at least one cycle per state; listed as not covered).

Finding on the unchanged tree: cycles_in_reset is sized for the reset length only (Signal(range(R))); whenever
S > 2**bits_for(R-1) the stop phase never ends (phy_stop stuck high, controller never returns to idle).  Fails for
(R,S) = (1,2), (2,3), (3,9), ...; witness replayed on the simulator.  Proposed fix: proposed_fixes/C54_reset_counter_width.diff.
"""
import z3
from hwv.contract import B, zx, bvc
from luna.gateware.architecture.car import PHYResetController

LEVEL = "proof"
EXPLANATION = ("Real PHYResetController per (clock, reset_length, stop_length, power_on_reset); ghost = spec sequencer "
               "(active, elapsed cycles) defined from trigger only; invariant = FSM state / cycle counter as a function of "
               "the ghost; ensures = phy_reset/phy_stop as exact functions of the ghost (iff). Unbounded 1-induction.")
ASSUMPTIONS = ["reset and stop durations are at least one clock cycle (R >= 1, S >= 1)"]


def make(R, S, por, freq=1e6):
    def contract(c):
        # R, S are the *configured* durations in cycles (ceil(length * f)), computed here and not read back from the unit:
        # a controller that derives other counts from its parameters must fail the clauses, not the contract's set-up
        d = PHYResetController(clock_frequency=freq, reset_length=(R - 0.5) / freq, stop_length=(S - 0.5) / freq,
                               power_on_reset=por)
        body(c, d, R, S, por)
    return contract


def make_default(por):
    def contract(c):
        d = PHYResetController(power_on_reset=por)           # 60 MHz, 2 us / 2 us -> 120 / 120 cycles
        body(c, d, 120, 120, por)
    return contract


def body(c, d, R, S, por):
    ts = c.unit(d, {"trigger": d.trigger, "phy_reset": d.phy_reset, "phy_stop": d.phy_stop})
    I, O = ts.inputs, ts.outputs
    W = 20
    assert R + S + 2 < (1 << W)
    active = c.ghost("active", 1, init=1 if por else 0)
    t = c.ghost("t", W, init=0)
    trig = I["trigger"] == 1
    last = t == R + S - 1
    c.set_next(active, z3.If(active == 1, z3.If(last, bvc(0, 1), bvc(1, 1)), z3.If(trig, bvc(1, 1), bvc(0, 1))))
    c.set_next(t, z3.If(z3.And(active == 1, z3.Not(last)), t + 1, bvc(0, W)))

    fsm = ts.fsm("fsm_state")
    in_reset = z3.And(active == 1, z3.ULT(t, R))
    in_stop = z3.And(active == 1, z3.UGE(t, R))
    c.inv("fsm_legal", fsm.legal())
    c.inv("elapsed_in_range", z3.ULT(t, R + S))
    c.inv("idle_has_zero_elapsed", z3.Implies(active == 0, t == 0))
    c.inv("idle_iff_no_sequence", fsm.is_("IDLE") == (active == 0))
    c.inv("resetting_iff_first_R_cycles", fsm.is_("RESETTING") == in_reset)
    c.inv("deferring_iff_last_S_cycles", fsm.is_("DEFERRING_STARTUP") == in_stop)
    # the phase counter, whatever it is called: proposed for every register of the unit that is not the FSM state and kept
    # only if inductive (Houdini) -- no internal name is relied upon
    in_phase = z3.If(active == 0, bvc(0, W), z3.If(z3.ULT(t, R), t, t - R))
    for key, var in ts.state.items():
        if key[0] == 'ff' and not str(var).endswith("fsm_state") and var.size() <= W:
            c.candidate(f"{str(var).replace('.', '_').replace('$', '_')}_is_time_in_phase", zx(var, W) == in_phase)

    c.ensure("phy_reset_iff_first_R_cycles_of_sequence", (O["phy_reset"] == 1) == in_reset,
             clause="a triggered (or power-on) reset asserts the PHY reset for exactly the configured number of cycles")
    c.ensure("phy_stop_iff_sequence_in_progress", (O["phy_stop"] == 1) == (active == 1),
             clause="keeps STP asserted during the reset and for exactly the configured stop duration afterwards, and then returns to idle")
    # the same, spelled out on the outputs alone (no reference to `active`): edges of the two outputs
    c.ensure("reset_falls_exactly_R_cycles_after_start", z3.Implies(O["phy_reset"] == 1, (c.nx(O["phy_reset"]) == 0) == (t == R - 1)),
             clause="PHY reset asserted for exactly reset_length cycles")
    c.ensure("stop_falls_exactly_S_cycles_after_reset", z3.Implies(O["phy_stop"] == 1, (c.nx(O["phy_stop"]) == 0) == (t == R + S - 1)),
             clause="STP for exactly the configured stop duration afterwards")
    c.ensure("idle_until_triggered_then_starts_next_cycle",
             z3.Implies(O["phy_stop"] == 0, z3.And(O["phy_reset"] == 0, (c.nx(O["phy_reset"]) == 1) == trig,
                                                   (c.nx(O["phy_stop"]) == 1) == trig)),
             clause="then returns to idle, ready for the next trigger")
    c.ensure("reset_implies_stop", z3.Implies(O["phy_reset"] == 1, O["phy_stop"] == 1), clause="keeps STP asserted during the reset")

    deep = R + S + 6
    reach = deep <= (64 if c.tier == 'quick' else 300)
    c.cover("sequence_completes", z3.And(active == 1, last), reach=reach)
    c.cover("stop_without_reset", z3.And(O["phy_stop"] == 1, O["phy_reset"] == 0), reach=reach)
    c.cover("idle_after_a_sequence_and_retriggered", z3.And(O["phy_stop"] == 0, trig), reach=reach or not por)
    c.cover("trigger_ignored_during_sequence", z3.And(active == 1, trig))
    c.cover_depth = deep if reach else 8
    c.bmc_depth = max(c.bmc_depth, min(2 * (R + S) + 8, 120))


def contracts(tier):
    cfgs = [(1, 1), (3, 2), (4, 4), (5, 8), (1, 2), (2, 3), (3, 9), (7, 3)]
    if tier != "quick":
        cfgs += [(r, s) for r in (1, 2, 3, 4, 5, 8, 9) for s in (1, 2, 3, 4, 5, 7, 8, 9, 16, 17) if (r, s) not in cfgs] + \
                [(16, 17), (17, 16), (31, 33), (100, 300), (600, 120)]
    for r, s in cfgs:
        for por in ((True, False) if (r, s) in ((3, 2), (2, 3), (5, 8), (1, 1), (16, 17), (4, 9)) else (True,)):
            yield ("PHYResetController", f"R{r}_S{s}_{'por' if por else 'nopor'}", make(r, s, por))
    yield ("PHYResetController", "default_60MHz_2us_2us_por", make_default(True))
    if tier != "quick":
        yield ("PHYResetController", "default_60MHz_2us_2us_nopor", make_default(False))
