"""C12 — non-control endpoints only act on tokens for their own endpoint number and direction.

Units (each real class, cut at its EndpointInterface, all bus-side signals free): USBStreamInEndpoint,
USBMultibyteStreamInEndpoint, USBSignalInEndpoint, USBIsochronousStreamInEndpoint, USBIsochronousInEndpoint,
USBStreamOutEndpoint, USBIsochronousStreamOutEndpoint;  plus the broadcast wiring of USBEndpointMultiplexer.

Ghost `mine`: the last token reported by the token detector carried my endpoint number and my direction (IN endpoints:
IN; bulk OUT: OUT or PING; isochronous OUT: OUT).  The token fields are registers of USBTokenDetector that only change in
the cycle in which new_token is strobed (require), so `mine` is a function of the previous cycle's token fields;
mine_now = `mine` after taking a new_token of the current cycle into account.

What is proved per endpoint class
  (a) outputs: tx.valid, and every handshake request the class drives, imply mine_now;
  (b) frame: in a cycle with not mine_now in which the endpoint's own side is idle (producer/consumer stream, flush,
      discard, ClearFeature(ENDPOINT_HALT) for it, SOF for isochronous IN), every register that determines what is sent
      next, the data toggle, and the data delivered (list per class) keeps its value — whatever handshakes, data packets,
      response-slot strobes, tx.ready pulses or tokens for other endpoints are seen;
  (c) one-step independence: with not mine_now, the next value of *every* protected register is the same for any two
      valuations of the bus-side inputs (handshakes_in, rx stream and strobes, ready_for_response strobes, tx.ready, token
      fields of tokens that are not mine) — so even while its own producer/consumer is active, foreign traffic does not
      enter the update;
  (d) invariant: whenever the endpoint is in a state in which it listens to handshakes or drives the bus, `mine` holds.
Not proved: the full two-run non-interference theorem over arbitrary long histories (it would need a relational
invariant over two copies); (b)-(d) are its one-step/inductive ingredients.
"""
import z3
from hwv.contract import B, bvc, zx, bv1, bits
from luna.gateware.usb.usb2.endpoints.stream import USBStreamInEndpoint, USBStreamOutEndpoint, USBMultibyteStreamInEndpoint
from luna.gateware.usb.usb2.endpoints.status import USBSignalInEndpoint
from luna.gateware.usb.usb2.endpoints.isochronous_stream_in import USBIsochronousStreamInEndpoint
from luna.gateware.usb.usb2.endpoints.isochronous_stream_out import USBIsochronousStreamOutEndpoint
from luna.gateware.usb.usb2.endpoints.isochronous import USBIsochronousInEndpoint
from luna.gateware.usb.usb2.endpoint import USBEndpointMultiplexer, EndpointInterface

PID_OUT, PID_IN, PID_PING = 0b0001, 0b1001, 0b0100

EXPLANATION = ("Per endpoint class: output gating and frame clauses as post-conditions over the extracted transition relation "
               "(all bus-side inputs universally quantified), one-step independence from foreign bus inputs by comparing the "
               "next-state terms under two valuations, and an inductive invariant 'listening/driving state => last token mine'.")
BOUNDED = []


def bus_ports(d):
    i, t = d.interface, d.interface.tokenizer
    return {"pid": t.pid, "ep": t.endpoint, "is_in": t.is_in, "is_out": t.is_out, "is_ping": t.is_ping,
            "new_token": t.new_token, "tok_rfr": t.ready_for_response, "new_frame": t.new_frame, "frame": t.frame,
            "rx_valid": i.rx.valid, "rx_next": i.rx.next, "rx_payload": i.rx.payload, "rx_complete": i.rx_complete,
            "rx_invalid": i.rx_invalid, "rx_rfr": i.rx_ready_for_response, "rx_tog": i.rx_pid_toggle,
            "clr": i.clear_endpoint_halt_in.as_value(),
            "hs_ack": i.handshakes_in.ack, "hs_nak": i.handshakes_in.nak, "hs_stall": i.handshakes_in.stall,
            "hs_nyet": i.handshakes_in.nyet,
            "ack": i.handshakes_out.ack, "nak": i.handshakes_out.nak, "stall": i.handshakes_out.stall,
            "tx_valid": i.tx.valid, "tx_ready": i.tx.ready, "tx_payload": i.tx.payload, "tx_first": i.tx.first,
            "tx_last": i.tx.last, "tx_pid": i.tx_pid_toggle}


# bus-side inputs that carry traffic (everything the multiplexer broadcasts); the rest of the inputs is the endpoint's own side
FOREIGN = ["pid", "ep", "is_in", "is_out", "is_ping", "new_token", "tok_rfr", "rx_valid", "rx_next", "rx_payload",
           "rx_complete", "rx_invalid", "rx_rfr", "rx_tog", "hs_ack", "hs_nak", "hs_stall", "hs_nyet", "tx_ready"]


def isolation(c, d, epnum, my_pids, extra_ports, own_idle, framed, unprotected, listening, name_filter=None):
    """own_idle(I) -> Bool;  framed(ts) -> list of (name, term) kept unchanged;  unprotected: substrings of state names that
    are excluded from the independence clause (with the reason in the caller);  listening(ts) -> Bool (states that drive
    the bus or listen to handshakes)."""
    ports = bus_ports(d)
    ports.update(extra_ports)
    ts = c.unit(d, ports)
    I, O = ts.inputs, ts.outputs
    g = c.ghost
    l_pid, l_ep = g("last_pid", 4), g("last_ep", 4)
    c.set_next(l_pid, I["pid"]); c.set_next(l_ep, I["ep"])
    addressed = lambda pid, ep: z3.And(ep == epnum, z3.Or(*[pid == p for p in my_pids]))
    mine = addressed(l_pid, l_ep)                                   # ghost: the last token was for me
    new_token = B(I["new_token"])
    mine_now = addressed(I["pid"], I["ep"])
    hs_any = z3.Or(*[I[n] == 1 for n in ("hs_ack", "hs_nak", "hs_stall", "hs_nyet") if n in I])

    reqs = []

    def require(name, e, why):
        c.require(name, e, why=why)
        reqs.append(e)
    require("token_fields_change_only_with_new_token",
            z3.Implies(z3.Or(I["pid"] != l_pid, I["ep"] != l_ep), new_token),
            "USBTokenDetector: pid/endpoint are registers written in the cycle that strobes new_token (tokens for other "
            "devices, which clear pid without new_token, are outside the property: 'sharing one device')")
    require("token_flags_decode_pid", z3.And(*[(I[n] == 1) == (I["pid"] == p) for n, p in
                                               (("is_in", PID_IN), ("is_out", PID_OUT), ("is_ping", PID_PING)) if n in I]),
            "USBTokenDetector drives is_in/is_out/is_ping combinationally from pid")
    if "tx_valid" in O:
        require("no_token_while_this_endpoint_transmits", z3.Implies(new_token, O["tx_valid"] == 0),
                "half-duplex bus: the host cannot complete a token packet while the device is transmitting")
    require("token_and_handshake_strobes_never_coincide", z3.Not(z3.And(new_token, hs_any)),
            "a token and a handshake are different packets; USBTokenDetector and USBHandshakeDetector strobe one cycle after "
            "the end of their packet")

    # (d)
    c.inv("listening_or_driving_only_after_my_token", z3.Implies(listening(ts), mine))

    # (a)
    if "tx_valid" in O:
        c.ensure("transmits_only_after_my_token", z3.Implies(O["tx_valid"] == 1, mine_now),
                 clause="transmits data only in response to a token carrying its own endpoint number and direction")
        c.cover("transmits", O["tx_valid"] == 1)
    for hs in ("ack", "nak", "stall"):
        if hs in O:
            c.ensure(f"requests_{hs}_only_after_my_token", z3.Implies(O[hs] == 1, mine_now),
                     clause="requests a handshake only in response to a token carrying its own endpoint number and direction")
    # (b)
    idle = own_idle(I, ts)
    fr = framed(ts)
    for nm, term in fr:
        c.ensure(f"foreign_traffic_leaves_{nm}_unchanged", z3.Implies(z3.And(z3.Not(mine_now), idle), c.nx(term) == term),
                 clause="tokens, data and handshakes exchanged with other endpoints never change what it sends next, its data "
                        "toggle, or the data it delivers")
    # (c)
    alt = [(I[n], z3.BitVec(n + "~alt", I[n].size())) for n in FOREIGN if n in I]
    sub = lambda e: z3.substitute(e, *alt)
    alt_ok = z3.And(*[sub(r) for r in reqs], z3.Not(sub(mine_now)))
    n_indep = 0
    for key, var in ts.state.items():
        nm = str(var)
        if any(u in nm for u in unprotected):
            continue
        nxt = c.nx(var)
        c.ensure(f"next_{nm.replace('$', '_')}_independent_of_foreign_traffic",
                 z3.Implies(z3.And(z3.Not(mine_now), alt_ok), nxt == sub(nxt)),
                 clause="tokens, data and handshakes exchanged with other endpoints never change ... (one step: the register's "
                        "next value does not depend on any bus-side input while the current token is not mine)")
        n_indep += 1
    assert n_indep > 0
    c.cover("foreign_handshake_seen", z3.And(z3.Not(mine_now), I["hs_ack"] == 1))
    c.cover("foreign_token_seen_after_mine", z3.And(mine, new_token, z3.Not(mine_now)))
    c.cover("my_token", z3.And(new_token, mine_now))
    c.cover("foreign_response_slot", z3.And(z3.Not(mine_now), I["tok_rfr"] == 1, I["rx_rfr"] == 1))
    return ts, I, O, mine, mine_now


# ----------------------------------------------------------------------------------------------------------- IN endpoints
def stream_in(mp, ep, multibyte=0):
    def contract(c):
        if multibyte:
            d = USBMultibyteStreamInEndpoint(byte_width=multibyte, endpoint_number=ep, max_packet_size=mp)
            P = "stream_ep.tx_manager."
            extra = {"s_valid": d.stream.valid, "s_ready": d.stream.ready, "s_payload": d.stream.payload,
                     "s_last": d.stream.last, "s_first": d.stream.first}
            # own side idle: no word offered and the word serialiser in front of the byte endpoint is not shifting one out
            own_idle = lambda I, ts: z3.And(I["s_valid"] == 0, bits(I["clr"], 0) == 0, ts.fsm("fsm_state").is_("IDLE"))
        else:
            d = USBStreamInEndpoint(endpoint_number=ep, max_packet_size=mp)
            P = "tx_manager."
            extra = {"s_valid": d.stream.valid, "s_ready": d.stream.ready, "s_payload": d.stream.payload,
                     "s_last": d.stream.last, "s_first": d.stream.first, "flush": d.flush, "discard": d.discard}
            own_idle = lambda I, ts: z3.And(I["s_valid"] == 0, I["flush"] == 0, I["discard"] == 0, bits(I["clr"], 0) == 0)

        def framed(ts):
            out = [("data_pid", ts.sig(P + "data_pid")), ("buffer_selection", ts.sig(P + "buffer_toggle")),
                   ("stream_ended_0", ts.sig(P + "stream_ended_in_buffer0")), ("stream_ended_1", ts.sig(P + "stream_ended_in_buffer1"))]
            fills = [v for k, v in ts.state.items() if str(v).startswith(P + "$signal")]
            assert len(fills) == 2
            out += [(f"fill_count_{i}", v) for i, v in enumerate(fills)]
            out += [(f"buffer_{i}_contents", ts.mem(P + f"transmit_buffer_{i}")[0]) for i in range(2)]
            if multibyte:          # the word serialiser in front of the byte endpoint only moves with the producer side
                out += [("data_shift", ts.sig("data_shift")), ("bytes_to_send", ts.sig("bytes_to_send"))]
            return out

        def listening(ts):
            return ts.fsm(P + "fsm_state").is_("SEND_PACKET", "WAIT_FOR_ACK")
        # unprotected: the FSM state may go WAIT_FOR_ACK -> WAIT_TO_SEND on a foreign token ("the host did not ACK": same
        # packet, same PID will be offered again); nothing else is excluded
        ts, I, O, mine, mine_now = isolation(c, d, ep, [PID_IN], extra, own_idle, framed, [P + "fsm_state"], listening)
        fsm = ts.fsm(P + "fsm_state")
        c.inv("fsm_legal", fsm.legal())
        c.ensure("foreign_token_only_schedules_a_retry",
                 z3.Implies(z3.And(z3.Not(mine_now), own_idle(I, ts)),
                            z3.Or(c.nx(ts.sig(P + "fsm_state")) == ts.sig(P + "fsm_state"),
                                  z3.And(fsm.is_("WAIT_FOR_ACK"), B(I["new_token"]),
                                         c.nx(ts.sig(P + "fsm_state")) == fsm.code("WAIT_TO_SEND")))),
                 clause="... never change what it sends next: the only reaction to foreign traffic is that a token for another "
                        "endpoint, seen while waiting for an ACK, schedules the retransmission of the same packet")
        c.cover("waiting_for_ack_when_foreign_token_arrives", z3.And(fsm.is_("WAIT_FOR_ACK"), B(I["new_token"]), z3.Not(mine_now)))
        c.cover("nak_when_no_data", O["nak"] == 1)
    return contract


def signal_in(width, ep, endianness):
    def contract(c):
        d = USBSignalInEndpoint(width=width, endpoint_number=ep, endianness=endianness)
        extra = {"signal": d.signal, "status_read_complete": d.status_read_complete}
        framed = lambda ts: [("latched_value", ts.sig("latched_signal")), ("data_pid", ts.sig("tx_pid_toggle"))]
        listening = lambda ts: ts.fsm("fsm_state").is_("TRANSMIT_RESPONSE", "WAIT_FOR_ACK")
        # unprotected: fsm_state (WAIT_FOR_ACK -> RETRANSMIT on a foreign token: the same latched value is sent again)
        ts, I, O, mine, mine_now = isolation(c, d, ep, [PID_IN], extra, lambda I, ts: z3.BoolVal(True), framed, ["fsm_state"], listening)
        fsm = ts.fsm("fsm_state")
        c.inv("fsm_legal", fsm.legal())
        c.ensure("read_complete_only_after_my_token", z3.Implies(O["status_read_complete"] == 1, mine_now),
                 clause="handshakes exchanged with other endpoints never complete this endpoint's read")
        c.ensure("foreign_token_only_schedules_a_retry",
                 z3.Implies(z3.Not(mine_now), z3.Or(c.nx(ts.sig("fsm_state")) == ts.sig("fsm_state"),
                                                   z3.And(fsm.is_("WAIT_FOR_ACK"), B(I["new_token"]),
                                                          c.nx(ts.sig("fsm_state")) == fsm.code("RETRANSMIT")))),
                 clause="... never change what it sends next: a foreign token seen while waiting for the ACK only schedules the "
                        "retransmission of the same latched value")
        c.cover("waiting_for_ack_when_foreign_token_arrives", z3.And(fsm.is_("WAIT_FOR_ACK"), B(I["new_token"]), z3.Not(mine_now)))
    return contract


def iso_in(cls, mp, ep):
    def contract(c):
        d = cls(endpoint_number=ep, max_packet_size=mp)
        extra = {"bytes_in_frame": d.bytes_in_frame}
        if hasattr(d, "stream"):
            extra.update({"s_valid": d.stream.valid, "s_payload": d.stream.payload, "s_ready": d.stream.ready})
        else:
            extra.update({"value": d.value, "address": d.address})

        def framed(ts):
            out = [("bytes_left_in_frame", ts.sig("bytes_left_in_frame")), ("bytes_left_in_packet", ts.sig("bytes_left_in_packet"))]
            out.append(("data_pid", ts.sig("next_data_pid") if ts.has("next_data_pid") else ts.sig("tx_pid_toggle")))
            return out
        listening = lambda ts: ts.fsm("fsm_state").is_("SEND_DATA", "SEND_ZLP")
        # own side: SOF (new_frame reloads the per-frame counters).  Nothing is unprotected.
        ts, I, O, mine, mine_now = isolation(c, d, ep, [PID_IN], extra, lambda I, ts: I["new_frame"] == 0, framed, ["\0none"], listening)
        fsm = ts.fsm("fsm_state")
        c.inv("fsm_legal", fsm.legal())
        c.ensure("stays_idle_under_foreign_traffic", z3.Implies(z3.And(z3.Not(mine_now), fsm.is_("IDLE")), c.nx(fsm.is_("IDLE"))),
                 clause="tokens for other endpoints never start a transmission")
    return contract


# ---------------------------------------------------------------------------------------------------------- OUT endpoints
def out_ep(cls, mp, ep, my_pids):
    def contract(c):
        d = cls(endpoint_number=ep, max_packet_size=mp)
        if cls is USBStreamOutEndpoint:
            extra = {"s_valid": d.stream.valid, "s_ready": d.stream.ready, "s_payload": d.stream.payload,
                     "s_first": d.stream.first, "s_last": d.stream.last}
        else:
            extra = {"s_valid": d.stream.valid, "s_ready": d.stream.ready, "s_payload": d.stream.payload.as_value()}

        def framed(ts):
            out = [("fifo_write_position", ts.sig("fifo.current_write_pointer")),
                   ("fifo_committed_position", ts.sig("fifo.committed_write_pointer")),
                   ("fifo_contents", ts.mem("fifo.rx_fifo")[0]),
                   ("fifo_read_position", ts.sig("fifo.current_read_pointer")),
                   ("stream_valid", ts.outputs["s_valid"]),
                   ("rx_cnt", ts.sig("rx_cnt"))]
            for r in ("expected_data_toggle", "transfer_active"):
                if ts.has(r):
                    out.append((r, ts.sig(r)))
            return out
        # own side: the consumer (stream.ready) and ClearFeature(ENDPOINT_HALT).
        # unprotected (with reasons): boundary_detector.* — the detector pre-processes every received packet, addressed to
        # this endpoint or not; its output is only *used* under targeting_endpoint (that is what the frame clauses show);
        # overflow / packet_full / packet_accepted — scratch flags of the transaction in flight, (re)initialised by the token or
        # first byte of a transaction for me before they are used (C13/C16 relate them to the transaction's own history).
        own_idle = lambda I, ts: z3.And(I["s_ready"] == 0, bits(I["clr"], 0) == 0)
        ts, I, O, mine, mine_now = isolation(c, d, ep, my_pids, extra, own_idle, framed,
                                             ["boundary_detector.", "overflow", "packet_full", "packet_accepted"], lambda ts: z3.BoolVal(False))
        for sgn in ("write_en", "write_commit", "write_discard"):
            c.ensure(f"no_fifo_{sgn}_under_foreign_traffic", z3.Implies(z3.Not(mine_now), ts.sig("fifo." + sgn) == 0),
                     clause="data exchanged with other endpoints never changes the data it delivers (nothing is written, committed "
                            "or discarded while the token is not mine)")
        c.cover("foreign_data_seen", z3.And(z3.Not(mine_now), I["rx_valid"] == 1, I["rx_next"] == 1))
        c.cover("foreign_complete_seen", z3.And(z3.Not(mine_now), ts.sig("boundary_detector.complete_out") == 1))
        if "ack" in O:
            c.cover("ack", O["ack"] == 1)
    return contract


# ---------------------------------------------------------------------------------------------------------- multiplexer
def mux(n):
    def contract(c):
        m = USBEndpointMultiplexer()
        ifs = [EndpointInterface() for _ in range(n)]
        for i in ifs:
            m.add_interface(i)
        s = m.shared
        ports = {"s_pid": s.tokenizer.pid, "s_ep": s.tokenizer.endpoint, "s_new_token": s.tokenizer.new_token,
                 "s_tok_rfr": s.tokenizer.ready_for_response, "s_is_in": s.tokenizer.is_in, "s_is_out": s.tokenizer.is_out,
                 "s_is_ping": s.tokenizer.is_ping,
                 "s_hs_ack": s.handshakes_in.ack, "s_hs_nak": s.handshakes_in.nak, "s_hs_stall": s.handshakes_in.stall,
                 "s_rx_valid": s.rx.valid, "s_rx_next": s.rx.next, "s_rx_payload": s.rx.payload, "s_rx_complete": s.rx_complete,
                 "s_rx_invalid": s.rx_invalid, "s_rx_rfr": s.rx_ready_for_response, "s_rx_tog": s.rx_pid_toggle,
                 "s_ack": s.handshakes_out.ack, "s_nak": s.handshakes_out.nak, "s_stall": s.handshakes_out.stall,
                 "s_tx_valid": s.tx.valid, "s_tx_payload": s.tx.payload, "s_tx_ready": s.tx.ready}
        for k, i in enumerate(ifs):
            ports.update({f"i{k}_pid": i.tokenizer.pid, f"i{k}_ep": i.tokenizer.endpoint, f"i{k}_new_token": i.tokenizer.new_token,
                          f"i{k}_tok_rfr": i.tokenizer.ready_for_response, f"i{k}_is_in": i.tokenizer.is_in,
                          f"i{k}_is_out": i.tokenizer.is_out, f"i{k}_is_ping": i.tokenizer.is_ping,
                          f"i{k}_hs_ack": i.handshakes_in.ack, f"i{k}_hs_nak": i.handshakes_in.nak, f"i{k}_hs_stall": i.handshakes_in.stall,
                          f"i{k}_rx_valid": i.rx.valid, f"i{k}_rx_next": i.rx.next, f"i{k}_rx_payload": i.rx.payload,
                          f"i{k}_rx_complete": i.rx_complete, f"i{k}_rx_invalid": i.rx_invalid, f"i{k}_rx_rfr": i.rx_ready_for_response,
                          f"i{k}_rx_tog": i.rx_pid_toggle,
                          f"i{k}_ack": i.handshakes_out.ack, f"i{k}_nak": i.handshakes_out.nak, f"i{k}_stall": i.handshakes_out.stall,
                          f"i{k}_tx_valid": i.tx.valid, f"i{k}_tx_payload": i.tx.payload, f"i{k}_tx_ready": i.tx.ready})
        ts = c.unit(m, ports)
        I, O = ts.inputs, ts.outputs
        bcast = ["pid", "ep", "new_token", "tok_rfr", "is_in", "is_out", "is_ping", "hs_ack", "hs_nak", "hs_stall", "rx_valid",
                 "rx_next", "rx_payload", "rx_complete", "rx_invalid", "rx_rfr", "rx_tog", "tx_ready"]
        for k in range(n):
            c.ensure(f"interface{k}_sees_the_shared_bus_unmodified",
                     z3.And(*[O[f"i{k}_{f}"] == I[f"s_{f}"] for f in bcast]),
                     clause="USBEndpointMultiplexer broadcasts tokenizer, handshakes and receive signals unmodified to every endpoint "
                            "(so each endpoint's `mine` is computed from the same token)")
        for hs in ("ack", "nak", "stall"):
            c.ensure(f"shared_{hs}_is_or_of_requests", (O[f"s_{hs}"] == 1) == z3.Or(*[I[f"i{k}_{hs}"] == 1 for k in range(n)]),
                     clause="a handshake is issued iff some endpoint requests it")
        c.ensure("shared_tx_valid_is_or_of_endpoints", (O["s_tx_valid"] == 1) == z3.Or(*[I[f"i{k}_tx_valid"] == 1 for k in range(n)]),
                 clause="the device transmits iff some endpoint transmits")
        for k in range(n):
            others_quiet = z3.And(*[I[f"i{j}_tx_valid"] == 0 for j in range(n) if j != k])
            c.ensure(f"lone_transmitter_{k}_reaches_the_bus", z3.Implies(z3.And(I[f"i{k}_tx_valid"] == 1, others_quiet),
                                                                         O["s_tx_payload"] == I[f"i{k}_tx_payload"]),
                     clause="with a single transmitting endpoint (guaranteed by clause (a) of every endpoint) its payload is what is sent")
    return contract


def contracts(tier):
    q = tier == "quick"
    # caller side (w1_usb2_glue): the complete EndpointInterface record, every field, in the multiplexer (bare interfaces, all
    # other lines arbitrary) and end-to-end inside the real USBDevice with a control, a bulk IN and a bulk OUT endpoint
    from .w1_usb2_glue import mux_wiring, device_wiring, ALL_GROUPS
    yield ("USBEndpointMultiplexer", "wiring_3_interfaces_all_fields", mux_wiring(3, ALL_GROUPS))
    yield ("USBDevice", "wiring_utmi_all_fields", device_wiring("utmi", ALL_GROUPS + ("utmi_tx",)))
    if not q:
        yield ("USBEndpointMultiplexer", "wiring_1_interface_all_fields", mux_wiring(1, ALL_GROUPS))
        yield ("USBEndpointMultiplexer", "wiring_2_interfaces_all_fields", mux_wiring(2, ALL_GROUPS))
        yield ("USBDevice", "wiring_ulpi_all_fields", device_wiring("ulpi", ALL_GROUPS + ("utmi_tx",)))
    yield ("USBStreamInEndpoint", "max4_ep2", stream_in(4, 2))
    yield ("USBSignalInEndpoint", "w16_ep3_little", signal_in(16, 3, "little"))
    yield ("USBIsochronousStreamInEndpoint", "max4_ep1", iso_in(USBIsochronousStreamInEndpoint, 4, 1))
    yield ("USBIsochronousInEndpoint", "max4_ep1", iso_in(USBIsochronousInEndpoint, 4, 1))
    yield ("USBStreamOutEndpoint", "max4_ep2", out_ep(USBStreamOutEndpoint, 4, 2, [PID_OUT, PID_PING]))
    yield ("USBIsochronousStreamOutEndpoint", "max4_ep5", out_ep(USBIsochronousStreamOutEndpoint, 4, 5, [PID_OUT]))
    yield ("USBMultibyteStreamInEndpoint", "w2_max4_ep2", stream_in(4, 2, multibyte=2))
    yield ("USBEndpointMultiplexer", "3_interfaces", mux(3))
    if not q:
        yield ("USBStreamInEndpoint", "max64_ep15", stream_in(64, 15))
        yield ("USBStreamInEndpoint", "max512_ep1", stream_in(512, 1))
        yield ("USBSignalInEndpoint", "w8_ep1_big", signal_in(8, 1, "big"))
        yield ("USBSignalInEndpoint", "w24_ep7_big", signal_in(24, 7, "big"))
        yield ("USBIsochronousStreamInEndpoint", "max1024_ep3", iso_in(USBIsochronousStreamInEndpoint, 1024, 3))
        yield ("USBIsochronousInEndpoint", "max512_ep9", iso_in(USBIsochronousInEndpoint, 512, 9))
        yield ("USBStreamOutEndpoint", "max64_ep1", out_ep(USBStreamOutEndpoint, 64, 1, [PID_OUT, PID_PING]))
        yield ("USBStreamOutEndpoint", "max512_ep15", out_ep(USBStreamOutEndpoint, 512, 15, [PID_OUT, PID_PING]))
        yield ("USBIsochronousStreamOutEndpoint", "max1024_ep2", out_ep(USBIsochronousStreamOutEndpoint, 1024, 2, [PID_OUT]))
        yield ("USBMultibyteStreamInEndpoint", "w4_max64_ep3", stream_in(64, 3, multibyte=4))
        yield ("USBEndpointMultiplexer", "1_interface", mux(1))
        yield ("USBEndpointMultiplexer", "5_interfaces", mux(5))
