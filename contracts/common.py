"""Shared ghost-state builders (spec side)."""
import z3
from hwv.contract import B, bvc, zx, bv1


class UTMIRx:
    """Ghost view of a UTMI receive history.  A *packet* is a maximal run of rx_active; its bytes are rx_data in the
    cycles where rx_valid is high.  Environment assumption UTMI-wf (UTMI+ spec: RXValid is only asserted while RXActive
    is high, and not in the first RXActive cycle)."""

    def __init__(self, c, active, valid, data, nbytes=3, cntw=3, prefix=""):
        self.c = c
        self.active, self.valid, self.data = B(active), B(valid), data
        P = prefix
        self.prev_active = c.ghost(P + "prev_active", 1, init=0)
        self.n = c.ghost(P + "n", cntw, init=0)                     # bytes seen in the current packet (saturating)
        self.sat = (1 << cntw) - 1
        self.b = [c.ghost(P + f"b{i}", 8, init=0) for i in range(nbytes)]
        inpkt = self.prev_active == 1
        self.byte_now = z3.And(self.active, self.valid, inpkt)       # a byte of the current packet is presented now
        c.set_next(self.prev_active, bv1(self.active))
        c.set_next(self.n, z3.If(z3.Not(self.active), bvc(0, cntw),
                                 z3.If(self.byte_now, z3.If(self.n == self.sat, self.n, self.n + 1), self.n)))
        for i, b in enumerate(self.b):
            c.set_next(b, z3.If(z3.And(self.byte_now, self.n == i), data, b))
        self.ends_now = z3.And(z3.Not(self.active), inpkt)           # the packet ends in this cycle
        c.require("utmi_wf", z3.Implies(self.valid, z3.And(self.active, inpkt)),
                  why="UTMI receive protocol: rx_valid only while rx_active, never in the first rx_active cycle "
                      "(discharged by the ULPI translator contract C22 for ULPI PHYs; assumed for raw UTMI PHYs)")
        c.inv(P + "n_zero_outside_packet", z3.Implies(self.prev_active == 0, self.n == 0))
