"""scratch: C11 contract restricted to the smallest configurations, for mutation runs only (deleted afterwards)."""
from .c11_bulk_in import make
def contracts(tier):
    yield ("USBStreamInEndpoint", "max4", make("endpoint", 4))
    yield ("USBInTransferManager", "max4", make("manager", 4))
