"""C19 — USB2 reset, high-speed handshake and suspend follow the line-state timing rules.

Units: the real `USBResetSequencer` (luna/gateware/usb/usb2/reset.py, 60 MHz constants as in the tree) and its wiring
inside the real `USBDevice` (luna/gateware/usb/usb2/device.py).

Ghost state (all defined from the sequencer's ports only; "…p" = value describing the history *before* the current cycle):

  se0p / kp / jp   run length of consecutive SE0 / K(10) / J(01) line states immediately before this cycle (saturating)
  idlep            run length of consecutive *idle* cycles; idle is defined from the PHY speed the device selects
                   (`current_speed`): HS -> SE0, FS -> 01, LS -> 10
  since_hs         cycles since the device last was in high-speed operation
                   (hs_mode := current_speed=HIGH and operating_mode=NORMAL and termination_select=HS_NORMAL)
  r                at the last cycle of high-speed operation, SE0 had lasted >= 3 ms (HS idle for 3 ms -> "revert")
  tainted          the current SE0 run began (>= 2 cycles of it) while the device was in high-speed operation
  cl               cycles of device chirp K (tx.valid in CHIRP mode with data 0) since the last reported bus reset
  sc               cycles since the device chirp ended
  p, pairs         the *specified* host-chirp recogniser: after the device chirp, a K run >= 150 cycles (2.5 us) sets p;
                   then a J run >= 150 cycles completes a pair (pairs+1, p cleared); anything else on the line in between
                   is ignored (glitch tolerant).  Reset by a reported bus reset and while the device chirps.
  speed_at_suspend while not suspended: the operating speed a suspend entered now would be entered at -- HIGH when the device
                   left high-speed operation after 3 ms of HS idle at most 875 us ago (r; the 200 us full-speed look that
                   tells suspend from reset), otherwise the `current_speed` output of this cycle; frozen while `suspended`
                   is reported, i.e. during a suspend it is the speed the device had when it entered THAT suspend
  resumed_prev     one cycle ago `suspended` was reported without a bus reset (so "resumed_prev and not suspended" = the
                   suspend was left in the previous cycle by a resume, not by a reset)

Timing convention: decisions are taken by the design in cycle t from registers that describe cycles < t, so every clause
is stated at the decision cycle with the "p" ghosts (e.g. bus_reset in cycle t => the 300 cycles before t were SE0).

Obligations that FAIL on the unchanged tree (three genuine defects; each witness is deeper than 120 000 cycles, so BMC
from reset cannot reach it and the engine prints `no-failing-input-found`; all three histories were replayed on the real
class with Amaranth's simulator by replays/C19_witnesses_sim.py, scenarios A, B, C):
  * cons/pairs_j_phase (behind `enter_hs_only_after_handshake_or_hs_resume`): IN_HOST_J counts a pair (valid_pairs+1) in
    the cycle line_state_time == 150 even if the J has just ended, and then waits for *another J* (AWAIT_HOST_J), so
    K, J, glitch, J, glitch, J is accepted as three K-J pairs.       fix: proposed_fixes/C19_pair_counted_on_j_glitch.diff
  * cons/await_timer_within_2p5ms (behind `host_chirp_deadline`, `enter_hs_by_handshake_only_within_deadline`): in
    AWAIT_HOST_K / AWAIT_HOST_J a K (J) arriving in exactly the time-out cycle overrides the time-out; the 18-bit timer
    runs on for 2^18 cycles and a handshake completed after the 2.5 ms deadline is accepted.
                                                                    fix: proposed_fixes/C19_chirp_timeout_priority.diff
  * post/no_handshake_start_when_restricted: DETECT_HS_SUSPEND starts the chirp handshake without looking at
    full_speed_only / low_speed_only.                       fix: proposed_fixes/C19_hs_reset_ignores_speed_restriction.diff
With proposed_fixes/C19_all.diff applied every obligation is discharged (./patchcheck.sh C19 proposed_fixes/C19_all.diff).

Not covered: the duration of the device's own chirp (the statement gives none; it is 2 ms minus the time the PHY was busy
before the chirp, see report), the exit conditions of suspend other than the high-speed resume, DISCONNECT timing.
"""
import z3
from hwv.contract import B, zx, bvc, bv1
from luna.gateware.usb.usb2.reset import USBResetSequencer

LEVEL = "proof"
EXPLANATION = ("1-induction over the transition system extracted from the real USBResetSequencer.elaborate() with the "
               "full-length 60 MHz constants (no scaling: induction is indifferent to 180 000-cycle timers); ghost "
               "run-length counters are defined from line_state and the sequencer's outputs only.  Covers of deep "
               "situations are satisfiability-with-invariant covers (reach=False), shallow ones are BMC covers.")
ASSUMPTIONS = ["60 MHz usb clock (the constants in reset.py are for 60 MHz; 2.5 us = 150 cycles, 3 ms = 180 000 cycles)"]

SE0, J, K = 0b00, 0b01, 0b10
HIGH, FULL, LOW = 0, 1, 2
NORMAL, NON_DRIVING, CHIRP = 0, 1, 2

T2P5US, T5US, T200US, T875US = 150, 300, 12000, 52500
T2MS, T2P5MS, T3MS = 120000, 150000, 180000

W = 19
SAT = (1 << W) - 1


def sat_inc(g):
    return z3.If(g == SAT, g, g + 1)


def ge(g, n):
    return z3.UGE(g, bvc(n, g.size()))


def le(g, n):
    return z3.ULE(g, bvc(n, g.size()))


PORTS = lambda d: {
    "i_line_state": d.line_state, "i_vbus": d.vbus_connected, "i_ls_only": d.low_speed_only,
    "i_fs_only": d.full_speed_only, "i_busy": d.bus_busy, "i_disconnect": d.disconnect, "i_tx_ready": d.tx.ready,
    "o_bus_reset": d.bus_reset, "o_suspended": d.suspended, "o_speed": d.current_speed,
    "o_op_mode": d.operating_mode, "o_term": d.termination_select, "o_tx_valid": d.tx.valid, "o_tx_data": d.tx.data}


def sequencer(c):
    d = USBResetSequencer()
    ts = c.unit(d, PORTS(d))
    I, O = ts.inputs, ts.outputs
    body(c, ts, "", dict(line=I["i_line_state"], vbus=I["i_vbus"], ls_only=I["i_ls_only"], fs_only=I["i_fs_only"],
                         bus_reset=O["o_bus_reset"], suspended=O["o_suspended"], speed=O["o_speed"], op=O["o_op_mode"],
                         term=O["o_term"], tx_valid=O["o_tx_valid"], tx_data=O["o_tx_data"]))


def body(c, ts, path, X, can_chirp=True):
    """The sequencer contract over the observable terms X (ports of the stand-alone unit, or the same signals of the
    reset_sequencer instance inside a USBDevice).  `path`: hierarchical prefix of the sequencer's registers."""
    line, vbus = X["line"], B(X["vbus"])
    ls_only = B(X["ls_only"])
    restricted = z3.Or(ls_only, B(X["fs_only"]))
    speed, op, term = X["speed"], X["op"], X["term"]
    bus_reset, suspended = B(X["bus_reset"]), B(X["suspended"])
    tx_valid = B(X["tx_valid"])
    hs_mode = z3.And(speed == HIGH, op == NORMAL, term == 0)
    fs_ls_normal = z3.And(z3.Or(speed == FULL, speed == LOW), op == NORMAL, term == 1)
    chirp_cfg = z3.And(speed == HIGH, op == CHIRP, term == 1)
    chirping = z3.And(tx_valid, op == CHIRP, X["tx_data"] == 0)
    idle = z3.If(speed == HIGH, line == SE0, z3.If(speed == FULL, line == J, line == 0b10))
    sig = lambda n: ts.sig(path + n)

    # ------------------------------------------------------------------ ghosts
    se0p = c.ghost("se0p", W); c.set_next(se0p, z3.If(line == SE0, sat_inc(se0p), bvc(0, W)))
    kp = c.ghost("kp", W);     c.set_next(kp, z3.If(line == K, sat_inc(kp), bvc(0, W)))
    jp = c.ghost("jp", W);     c.set_next(jp, z3.If(line == J, sat_inc(jp), bvc(0, W)))
    idlep = c.ghost("idlep", W); c.set_next(idlep, z3.If(idle, sat_inc(idlep), bvc(0, W)))
    since_hs = c.ghost("since_hs", W, init=SAT); c.set_next(since_hs, z3.If(hs_mode, bvc(0, W), sat_inc(since_hs)))
    r = c.ghost("r", 1);       c.set_next(r, z3.If(hs_mode, bv1(ge(se0p, T3MS)), r))
    tainted = c.ghost("tainted", 1)
    c.set_next(tainted, bv1(z3.And(line == SE0, z3.Or(tainted == 1, z3.And(hs_mode, ge(se0p, 1))))))
    cl = c.ghost("cl", W);     c.set_next(cl, z3.If(bus_reset, bvc(0, W), z3.If(chirping, sat_inc(cl), cl)))
    sc = c.ghost("sc", W, init=SAT); c.set_next(sc, z3.If(chirping, bvc(0, W), sat_inc(sc)))
    p = c.ghost("p", 1)
    pairs = c.ghost("pairs", 2)
    k_now = z3.If(line == K, sat_inc(kp), bvc(0, W))          # K run including the current cycle
    j_now = z3.If(line == J, sat_inc(jp), bvc(0, W))
    rec_reset = z3.Or(bus_reset, chirping)
    k_ok = z3.And(p == 0, ge(k_now, T2P5US), pairs != 3)
    j_ok = z3.And(p == 1, ge(j_now, T2P5US), pairs != 3)
    c.set_next(p, z3.If(rec_reset, bvc(0, 1), z3.If(k_ok, bvc(1, 1), z3.If(j_ok, bvc(0, 1), p))))
    c.set_next(pairs, z3.If(rec_reset, bvc(0, 2), z3.If(j_ok, pairs + 1, pairs)))
    sas = c.ghost("speed_at_suspend", 2, init=FULL)
    c.set_next(sas, z3.If(suspended, sas, z3.If(z3.And(r == 1, le(since_hs, T875US)), bvc(HIGH, 2), speed)))
    resumed_prev = c.ghost("resumed_prev", 1); c.set_next(resumed_prev, bv1(z3.And(suspended, z3.Not(bus_reset))))

    # ------------------------------------------------------------------ invariant (abstraction map)
    fsm = ts.fsm(path + "fsm_state")
    S = fsm.is_
    timer, lst = zx(sig("timer"), W), zx(sig("line_state_time"), W)
    vp, tddis = sig("valid_pairs"), sig("tddis")
    HANDSHAKE = ("AWAIT_HOST_K", "IN_HOST_K", "AWAIT_HOST_J", "IN_HOST_J")
    c.inv("fsm_legal", fsm.legal())
    # PHY configuration per state
    c.inv("cfg_fs_ls_states", z3.Implies(S("INITIALIZE", "LS_FS_NON_RESET", "SUSPENDED", "DETECT_HS_SUSPEND"), fs_ls_normal))
    c.inv("cfg_full_speed_states", z3.Implies(S("INITIALIZE", "DETECT_HS_SUSPEND"), speed == FULL))
    c.inv("cfg_hs_non_reset", z3.Implies(S("HS_NON_RESET"), hs_mode))
    c.inv("cfg_chirp_states", z3.Implies(S("PREPARE_FOR_CHIRP_0", "PREPARE_FOR_CHIRP_1", "DEVICE_CHIRP", *HANDSHAKE), chirp_cfg))
    c.inv("cfg_start_hs_detection", z3.Implies(S("START_HS_DETECTION"), fs_ls_normal))
    c.inv("cfg_is_high_speed", z3.Implies(S("IS_HIGH_SPEED"), z3.Or(chirp_cfg, fs_ls_normal)))
    c.inv("cfg_is_low_or_full", z3.Implies(S("IS_LOW_OR_FULL_SPEED"), z3.Or(hs_mode, chirp_cfg, fs_ls_normal)))
    first_disc = z3.And(sig("timer") == 0, se0p == 0, tddis == 0, z3.Or(hs_mode, fs_ls_normal))
    c.inv("cfg_disconnect", z3.Implies(S("DISCONNECT"), z3.Or(op == NON_DRIVING, first_disc)))
    c.inv("speed_legal", z3.ULE(speed, 2))
    c.inv("tddis_only_in_disconnect", z3.Implies(tddis == 1, S("DISCONNECT")))
    # timers measure the run lengths
    c.inv("timer_le_se0_run", z3.Implies(S("LS_FS_NON_RESET", "SUSPENDED", "HS_NON_RESET"), z3.ULE(timer, se0p)))
    c.inv("lst_le_idle_run", z3.Implies(S("LS_FS_NON_RESET"), z3.And(z3.ULE(lst, idlep), z3.ULE(lst, since_hs))))
    c.inv("untainted_fs_states", z3.Implies(S("INITIALIZE", "LS_FS_NON_RESET", "SUSPENDED", "DISCONNECT"), tainted == 0))
    c.inv("detect_hs_suspend_window", z3.Implies(S("DETECT_HS_SUSPEND"),
                                                 z3.And(r == 1, timer == since_hs, le(timer, T200US))))
    # during a suspend the PHY stays at the full/low speed it was entered with (full speed after a high-speed suspend) ...
    c.inv("suspend_speed_frozen", z3.Implies(S("SUSPENDED"), z3.And(sas != 3, speed == z3.If(sas == HIGH, bvc(FULL, 2), sas))))
    # ... and the unit's own "was high speed before this suspend" flag is the abstraction of the ghost (incidental register:
    # try_inv, so that renaming it degrades the contract instead of breaking it)
    c.try_inv("suspend_kind", lambda: z3.Implies(S("SUSPENDED"), (sig("was_hs_pre_suspend") == 1) == (sas == HIGH)))
    # chirp handshake
    c.inv("handshake_after_device_chirp", z3.Implies(S(*HANDSHAKE), z3.And(ge(cl, 1), timer == sc, z3.ULE(vp, 2))))
    c.inv("await_timer_within_2p5ms", z3.Implies(S(*HANDSHAKE), le(timer, T2P5MS)))
    c.inv("in_k_timer", z3.Implies(S("IN_HOST_K"), z3.ULT(lst, kp)))
    c.inv("in_j_timer", z3.Implies(S("IN_HOST_J"), z3.ULT(lst, jp)))
    prog = zx(z3.Concat(pairs, p), 4)
    c.inv("pairs_k_phase", z3.Implies(S("AWAIT_HOST_K", "IN_HOST_K"), z3.ULE(zx(z3.Concat(vp, bvc(0, 1)), 4), prog)))
    c.inv("pairs_j_phase", z3.Implies(S("AWAIT_HOST_J", "IN_HOST_J"), z3.ULE(zx(z3.Concat(vp, bvc(1, 1)), 4), prog)))
    handshake_done = z3.And(ge(cl, 1), pairs == 3, le(sc, T2P5MS + 1))
    resume_hs = z3.And(resumed_prev == 1, z3.Not(suspended), sas == HIGH)
    c.inv("is_high_speed_justified", z3.Implies(S("IS_HIGH_SPEED"), z3.Or(handshake_done, resume_hs)))
    c.inv("hs_mode_states", z3.Implies(hs_mode, S("HS_NON_RESET", "IS_LOW_OR_FULL_SPEED", "DISCONNECT")))
    c.inv("post_chirp_window", z3.Implies(z3.And(S("IS_LOW_OR_FULL_SPEED", "IS_HIGH_SPEED"), op == CHIRP),
                                          z3.Or(le(sc, T2P5MS + 1), cl == 0)))
    c.inv("pre_chirp_no_chirp_yet", z3.Implies(S("START_HS_DETECTION", "PREPARE_FOR_CHIRP_0", "PREPARE_FOR_CHIRP_1"), cl == 0))

    # ------------------------------------------------------------------ ensures (statement, clause by clause)
    enter_hs = z3.And(z3.Not(hs_mode), c.nx(hs_mode))
    c.ensure("enter_hs_only_after_handshake_or_hs_resume",
             z3.Implies(enter_hs, z3.Or(z3.And(ge(cl, 1), pairs == 3), resume_hs)),
             clause="enters high-speed operation only after a bus reset in which it has driven its chirp K and then observed "
                    "at least three host chirp K-J pairs whose every state lasted at least 2.5 us (or when resuming from a "
                    "suspend entered at high speed)")
    c.ensure("enter_hs_by_handshake_only_within_deadline",
             z3.Implies(z3.And(enter_hs, z3.Not(resume_hs)), le(sc, T2P5MS + 1)),
             clause="falls back to full/low speed when the host chirp does not arrive in time: a handshake completing more "
                    "than 2.5 ms after the end of the device chirp is not accepted")
    c.ensure("no_handshake_start_when_restricted",
             z3.Implies(restricted, z3.Not(z3.And(c.nx(op) != CHIRP, c.nx(op, 2) == CHIRP))),
             clause="it never starts that handshake while restricted to full or low speed (the PHY is not switched to chirp "
                    "mode as the consequence of a cycle in which full_speed_only or low_speed_only is asserted)")
    c.ensure("leaves_hs_within_two_cycles_of_restriction",
             z3.Implies(z3.And(hs_mode, restricted), z3.Not(c.nx(hs_mode, 2))),
             clause="leaves high speed within two cycles of such a restriction")
    c.ensure("leaves_hs_to_fs_or_ls",
             z3.Implies(z3.And(S("HS_NON_RESET"), restricted),
                        c.nx(z3.And(op == NORMAL, term == 1), 2)),
             clause="leaves high speed within two cycles of such a restriction (to full/low-speed terminations, normal mode)")
    awaiting = z3.And(op == CHIRP, z3.Not(tx_valid), ge(cl, 1))
    c.ensure("host_chirp_deadline", z3.Implies(awaiting, le(sc, T2P5MS + 1)),
             clause="falls back to full/low speed when the host chirp does not arrive in time (the device does not stay in "
                    "the chirp handshake for more than 2.5 ms after the end of its own chirp)")
    c.ensure("chirp_mode_ends_in_hs_or_fs_ls",
             z3.Implies(z3.And(op == CHIRP, c.nx(op) != CHIRP),
                        z3.Or(c.nx(hs_mode), z3.And(c.nx(z3.And(op == NORMAL, term == 1)),
                                                    c.nx(speed) == z3.If(ls_only, bvc(LOW, 2), bvc(FULL, 2))))),
             clause="falls back to full/low speed (low speed iff low_speed_only) when the handshake does not complete")
    hs_reset = z3.And(r == 1, z3.Not(hs_mode), ge(since_hs, T200US), le(since_hs, T875US), line != J)
    c.ensure("bus_reset_only_when_justified",
             z3.Implies(bus_reset, z3.Or(z3.Not(vbus),
                                         z3.And(suspended, ge(se0p, T2P5US)),
                                         z3.And(z3.Not(suspended), z3.Not(hs_mode), tainted == 0, ge(se0p, T5US)),
                                         hs_reset)),
             clause="a bus reset is reported only while VBUS is absent or after SE0 has persisted continuously for at least "
                    "2.5 us (5 us when active at full/low speed; 3 ms of SE0 followed by 200 us of non-idle at high speed)")
    c.ensure("bus_reset_in_hs_operation_only_without_vbus", z3.Implies(z3.And(bus_reset, hs_mode), z3.Not(vbus)),
             clause="at high speed a bus reset is reported only via the 3 ms + 200 us discrimination (or VBUS loss)")
    enter_susp = z3.And(z3.Not(suspended), c.nx(suspended))
    hs_suspend = z3.And(r == 1, z3.Not(hs_mode), ge(since_hs, T200US), le(since_hs, T875US), line == J)
    c.ensure("suspend_only_after_3ms_idle", z3.Implies(enter_susp, z3.Or(ge(idlep, T3MS), hs_suspend)),
             clause="suspend is entered only after 3 ms of continuous idle (at high speed: 3 ms of SE0 = HS idle, then the "
                    "full-speed idle state J seen 200 us after reverting to full speed)")
    leave_by_resume = z3.And(suspended, z3.Not(bus_reset), c.nx(z3.Not(suspended)))
    c.ensure("resume_restores_speed_at_suspend",
             z3.Implies(leave_by_resume,
                        z3.And(c.nx(speed, 2) == sas, c.nx(op, 2) == NORMAL,
                               c.nx(term, 2) == z3.If(sas == HIGH, bvc(0, 1), bvc(1, 1)),
                               z3.Implies(sas != HIGH, z3.And(c.nx(speed) == sas, c.nx(fs_ls_normal))))),
             clause="(or when resuming from a suspend entered at high speed): a resume returns the device to the speed it was "
                    "operating at when it entered that suspend -- high speed (within two cycles) iff that suspend was entered "
                    "at high speed, otherwise the unchanged full/low speed")
    c.ensure("suspended_keeps_fs_ls_speed",
             z3.Implies(suspended, z3.And(fs_ls_normal, speed == z3.If(sas == HIGH, bvc(FULL, 2), sas))),
             clause="while suspended the PHY stays in full/low-speed normal mode at the speed the suspend was entered with "
                    "(full speed for a suspend entered at high speed)")
    c.ensure("suspend_not_in_hs_operation", z3.Implies(suspended, z3.Not(hs_mode)),
             clause="suspend is entered only after 3 ms of continuous idle (never directly from high-speed operation)")

    # ------------------------------------------------------------------ vacuity guards
    c.cover("bus_reset_without_vbus", z3.And(bus_reset, z3.Not(vbus)))
    c.cover("bus_reset_with_vbus_fs", z3.And(bus_reset, vbus, S("LS_FS_NON_RESET")), reach=False)
    c.cover("bus_reset_from_suspend", z3.And(bus_reset, vbus, suspended), reach=False)
    c.cover("bus_reset_hs", z3.And(bus_reset, vbus, S("DETECT_HS_SUSPEND")), reach=False)
    c.cover("enter_hs_by_handshake", z3.And(enter_hs, z3.Not(resume_hs)), reach=False)
    c.cover("enter_hs_by_resume", z3.And(enter_hs, resume_hs), reach=False)
    c.cover("restricted_in_hs", z3.And(hs_mode, restricted, S("HS_NON_RESET")), reach=False)
    c.cover("suspend_fs", z3.And(enter_susp, S("LS_FS_NON_RESET")), reach=False)
    c.cover("suspend_hs", z3.And(enter_susp, S("DETECT_HS_SUSPEND")), reach=False)
    c.cover("resume_to_full_speed", z3.And(leave_by_resume, sas == FULL), reach=False)
    c.cover("resume_to_low_speed", z3.And(leave_by_resume, sas == LOW), reach=False)
    c.cover("resume_to_high_speed", z3.And(leave_by_resume, sas == HIGH), reach=False)
    c.cover("handshake_timeout", z3.And(awaiting, S("AWAIT_HOST_K"), c.nx(S("IS_LOW_OR_FULL_SPEED"))), reach=False)
    c.cover("restricted_reset_does_not_chirp", z3.And(bus_reset, vbus, restricted, S("LS_FS_NON_RESET")), reach=False)
    if can_chirp:          # (a device on a full-speed-only PHY is permanently restricted: this situation must not exist there)
        c.cover("chirp_starts", z3.And(c.nx(op) != CHIRP, c.nx(op, 2) == CHIRP), reach=False)


def device(ulpi, full):
    """The sequencer as wired inside the real USBDevice: (a) wiring clauses between the device's UTMI/user ports and the
    sequencer instance, (b) for always-full-speed PHYs (raw UTMI / gateware PHY: full_speed_only is tied high inside the
    device) the consequence that the device never configures the PHY for high speed or chirp, (c) with full=True the whole
    sequencer contract re-proved on the device netlist over the instance's signals."""
    def contract(c):
        from luna.gateware.usb.usb2.device import USBDevice
        from luna.gateware.interface.utmi import UTMIInterface
        if ulpi:
            from amaranth.hdl.rec import Record
            u = Record([('data', [('i', 8), ('o', 8), ('oe', 1)]), ('clk', [('o', 1)]), ('nxt', [('i', 1)]),
                        ('stp', [('o', 1)]), ('dir', [('i', 1)]), ('rst', [('o', 1)])])
            d = USBDevice(bus=u, handle_clocking=False)
            ports = {"data_i": u.data.i, "nxt": u.nxt.i, "dir": u.dir.i}
        else:
            utmi = UTMIInterface()
            d = USBDevice(bus=utmi)
            ports = {"rx_data": utmi.rx_data, "rx_active": utmi.rx_active, "rx_valid": utmi.rx_valid,
                     "tx_ready": utmi.tx_ready, "line_state": utmi.line_state, "vbus_valid": utmi.vbus_valid,
                     "session_valid": utmi.session_valid, "session_end": utmi.session_end, "rx_error": utmi.rx_error,
                     "host_disconnect": utmi.host_disconnect, "id_digital": utmi.id_digital,
                     "o_op_mode": utmi.op_mode, "o_xcvr_select": utmi.xcvr_select, "o_term_select": utmi.term_select,
                     "o_tx_valid": utmi.tx_valid, "o_tx_data": utmi.tx_data}
        ports.update({"connect": d.connect, "low_speed_only": d.low_speed_only, "full_speed_only": d.full_speed_only,
                      "o_speed": d.speed, "o_suspended": d.suspended, "o_reset_detected": d.reset_detected})
        ts = c.unit(d, ports)
        I, O = ts.inputs, ts.outputs
        rs = ts.instance(USBResetSequencer)
        of = ts.of
        u_ = d.utmi
        # everything below is addressed through the real instances (found by class), never through the submodule or local
        # variable names of USBDevice.elaborate: the sequencer's own registers by its hierarchical position, the device's
        # address / configuration registers by role (what the token detector filters on / what the endpoints are shown)
        from luna.gateware.usb.usb2.packet import USBTokenDetector
        from luna.gateware.usb.usb2.endpoint import USBEndpointMultiplexer
        from .c10_unsupported_requests_stall import hier, instance_fsm, instance_sig
        from .w1_usb2_glue import device_register
        rs_path = "".join(n + "." for n in hier(ts, rs))
        epmux = ts.instance(USBEndpointMultiplexer)
        address = device_register(ts, d, [epmux.shared.active_address, ts.instance(USBTokenDetector).address], "address")
        configuration = device_register(ts, d, [epmux.shared.active_config], "configuration")
        always_fs = 1 if d.always_fs else 0
        # (a) wiring
        c.ensure("w_line_state", of(rs.line_state) == of(u_.line_state), clause="the sequencer sees the PHY's UTMI line state")
        c.ensure("w_vbus", of(rs.vbus_connected) == ~of(u_.session_end), clause="VBUS absent = UTMI session_end")
        c.ensure("w_disconnect", of(rs.disconnect) == ~I["connect"], clause="soft-disconnect request = not connect")
        c.ensure("w_restrictions", z3.And(of(rs.low_speed_only) == (I["low_speed_only"] & bvc(1 - always_fs, 1)),
                                          of(rs.full_speed_only) == (I["full_speed_only"] | bvc(always_fs, 1))),
                 clause="speed restrictions: the user inputs, with full-speed-only forced for full-speed-only PHYs")
        c.ensure("w_phy_controls", z3.And(of(u_.op_mode) == of(rs.operating_mode), of(u_.xcvr_select) == of(rs.current_speed),
                                          of(u_.term_select) == (of(rs.termination_select) & I["connect"])),
                 clause="operating_mode / current_speed / termination_select drive the PHY (pull-up removed when not connected)")
        c.ensure("w_status", z3.And(O["o_speed"] == of(rs.current_speed), O["o_suspended"] == of(rs.suspended),
                                    O["o_reset_detected"] == of(rs.bus_reset)),
                 clause="bus_reset / suspended / current_speed are the device's reset_detected / suspended / speed outputs")
        c.ensure("w_chirp_tx", z3.Implies(of(rs.tx.valid) == 1, of(u_.tx_valid) == 1),
                 clause="the sequencer's chirp drives the PHY transmit interface")
        c.ensure("w_bus_reset_clears_address",
                 z3.Implies(of(rs.bus_reset) == 1, z3.And(c.nx(address) == 0, c.nx(configuration) == 0)),
                 clause="a reported bus reset returns the device to the unaddressed, unconfigured state")
        X = dict(line=of(rs.line_state), vbus=of(rs.vbus_connected), ls_only=of(rs.low_speed_only),
                 fs_only=of(rs.full_speed_only), bus_reset=of(rs.bus_reset), suspended=of(rs.suspended),
                 speed=of(rs.current_speed), op=of(rs.operating_mode), term=of(rs.termination_select),
                 tx_valid=of(rs.tx.valid), tx_data=of(rs.tx.data))
        if full:
            body(c, ts, rs_path, X, can_chirp=not always_fs)
        elif always_fs:
            # (b) restricted for ever: only the full/low-speed part of the FSM is reachable
            fsm = instance_fsm(ts, rs)
            c.inv("fs_only_states", fsm.is_("INITIALIZE", "LS_FS_NON_RESET", "SUSPENDED", "DISCONNECT"))
            c.inv("fs_only_never_hs_suspend", instance_sig(ts, rs, "was_hs_pre_suspend") == 0)
            c.inv("fs_only_cfg", z3.And(z3.Or(X["speed"] == FULL, X["speed"] == LOW), X["op"] != CHIRP, X["term"] == 1))
            c.ensure("full_speed_only_phy_never_high_speed_or_chirp",
                     z3.And(of(u_.xcvr_select) != HIGH, of(u_.op_mode) != CHIRP, of(rs.tx.valid) == 0),
                     clause="it never starts that handshake while restricted to full or low speed (devices on full-speed-only "
                            "PHYs are permanently restricted)")
            c.cover("fs_only_bus_reset", of(rs.bus_reset) == 1)
    return contract


def contracts(tier):
    """HWV_ONLY_UNITS=<comma separated unit names> restricts the run to those units (development aid for mutation runs)."""
    import os
    only = [x for x in os.environ.get("HWV_ONLY_UNITS", "").split(",") if x]
    for entry in _contracts(tier):
        if not only or entry[0] in only:
            yield entry


def _contracts(tier):
    yield ("USBResetSequencer", "60MHz", sequencer)
    yield ("USBDevice", "utmi_always_fs_wiring", device(ulpi=False, full=False))
    yield ("USBDevice", "ulpi_wiring", device(ulpi=True, full=False))
    if tier == "thorough":
        yield ("USBDevice", "ulpi_full", device(ulpi=True, full=True))
        yield ("USBDevice", "utmi_always_fs_full", device(ulpi=False, full=True))
