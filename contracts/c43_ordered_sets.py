"""C43 — training ordered sets are emitted (TSEmitter) and detected (TSBurstDetector) exactly.

Ordered-set contents are written here from USB 3.2 tables 6-3 .. 6-6 (K/D codes), not imported from the code:
the real module-level constants TSEQ_SET_DATA / TS1_SET_DATA / INVERTED_TS1_SET_DATA / TS2_SET_DATA are what the units are
instantiated with, and a `lemma` obligation compares them with the tables.

TSEmitter — observer ghosts: `active` (inside a burst), `w` (index of the word on the source), `s` (sets completed in
this burst), all driven by `start` and the source handshake only.  Ensures: valid <=> active; the word on the source is
word w of the set (first-word ctrl flags, TS2 link-functionality bits = the request inputs); `done` exactly with the
transfer of the last word of set number `burst length`; a burst begins only on `start`.

TSBurstDetector — reading of the statement: the input is the sequence of *valid* words ("idle gaps" = cycles without a
valid word, which is what SKP removal leaves behind); ghost `k` follows the valid-word stream (how many words of a
well-formed set the latest words make up); `E` = a well-formed set has just been completed; `since` = number of sets
completed since the last report with nothing but gaps between them (any valid word that is neither the next word of the
set in progress nor a set start at a set boundary resets it: "consecutive").
    S1  a report comes only directly after a complete well-formed set                         ("never reports on other data")
    S2  a report needs `sets_in_burst` consecutive sets since the previous report               ("once for every configured number of consecutive ... sets")
    S3  conversely such a run is reported, at its last set — for runs the detector *tracks* (see below)
    S4  at the report the configuration outputs are the link-functionality bits of the completed set
    S5  detected is a one-cycle strobe; the detector never stalls its input.

Not covered / deviation noted (S3 is conditional): the detector spends one cycle in NONE_DETECTED after a mismatch (and
after reset) in which it does not look at its input, and it does not re-examine a mismatching word as a possible set
start.  A set whose first word arrives in such a cycle / as such a word is not counted ("untracked", ghost `trk`/`lost`),
so N well-formed consecutive sets that directly follow a broken set can go unreported until one more set arrives.  The
contract proves completeness only for runs without an untracked set.

FINDING on the unchanged tree (S2 fails, witness replayed): after a set followed by a gap the detector waits in
WAIT_FOR_FIRST, where arbitrary valid non-matching words are ignored *without* clearing consecutive_set_count, whereas the
same words directly after a set (no gap) clear it.  Hence `N-1 sets, gap, any amount of other data, 1 set` is reported as
N consecutive sets.  Proposed fix: proposed_fixes/C43_ts_detector_reset_count_on_other_data.diff.
"""
import z3
from hwv.contract import B, bvc, bits, zx
from luna.gateware.usb.usb3.link import ordered_sets as OS
from luna.gateware.usb.usb3.link.ordered_sets import TSBurstDetector, TSEmitter

# ------------------------------------------------------------------------------------------------ the standard's tables
D = lambda x, y: (y << 5) | x
K28_5 = (5 << 5) | 28
TSEQ_SYMS = [K28_5, D(31, 7), D(23, 0), D(0, 6), D(20, 0), D(18, 5), D(7, 7), D(2, 0), D(2, 4), D(18, 3), D(14, 3), D(8, 1),
             D(6, 5), D(30, 5), D(13, 3), D(31, 5)] + [D(10, 2)] * 16                          # table 6-3
TS1_SYMS = [K28_5] * 4 + [0x00, 0x00] + [D(10, 2)] * 10                                        # table 6-4 (sym 4 reserved, 5 link functionality)
TS2_SYMS = [K28_5] * 4 + [0x00, 0x00] + [D(5, 2)] * 10                                         # table 6-5
INV_TS1_SYMS = [K28_5] * 4 + [0x00, 0x00] + [D(10, 2) ^ 0xFF] * 10                             # TS1 seen with inverted polarity: D21.5


def words(syms):
    return [int.from_bytes(bytes(syms[i:i + 4]), "little") for i in range(0, len(syms), 4)]


SETS = {   # name -> (real constant, table, first-word ctrl, include_config)
    "TSEQ": (OS.TSEQ_SET_DATA, words(TSEQ_SYMS), 0b0001, False),
    "TS1": (OS.TS1_SET_DATA, words(TS1_SYMS), 0b1111, False),
    "INVTS1": (OS.INVERTED_TS1_SET_DATA, words(INV_TS1_SYMS), 0b1111, False),
    "TS2": (OS.TS2_SET_DATA, words(TS2_SYMS), 0b1111, True),
}


def table_lemma(c, name):
    real, table, _, _ = SETS[name]
    c.lemma(f"{name}_set_data_matches_standard", z3.BoolVal(list(real) == list(table)),
            clause="ordered sets with the correct symbols")


def sel(idx, values, width):
    """values[idx] as a z3 term (idx a BV)"""
    e = bvc(values[-1], width)
    for i in range(len(values) - 2, -1, -1):
        e = z3.If(idx == i, bvc(values[i], width), e)
    return e


# ------------------------------------------------------------------------------------------------ emitter
def make_emitter(name, burst):
    real, table, first_ctrl, cfg = SETS[name]
    n = len(table)

    def contract(c):
        d = TSEmitter(set_data=real, first_word_ctrl=first_ctrl, transmit_burst_length=burst, include_config=cfg)
        ports = {"start": d.start, "done": d.done, "source_data": d.source.data, "source_ctrl": d.source.ctrl,
                 "source_valid": d.source.valid, "source_ready": d.source.ready, "source_first": d.source.first,
                 "source_last": d.source.last}
        if cfg:
            ports.update(request_hot_reset=d.request_hot_reset, request_loopback=d.request_loopback,
                         request_no_scrambling=d.request_no_scrambling)
        ts = c.unit(d, ports)
        I, O = ts.inputs, ts.outputs
        table_lemma(c, name)
        fsm = ts.fsm("fsm_state")
        WW, SW = max(1, (n - 1).bit_length()) + 1, max(1, burst.bit_length()) + 1
        active, w, s = c.ghost("active", 1), c.ghost("w", WW), c.ghost("s", SW)
        start, ready = I["start"] == 1, I["source_ready"] == 1
        xfer = z3.And(active == 1, ready)                      # a word of the burst is transferred
        last_word = w == n - 1
        last_set = s == burst - 1
        burst_ends = z3.And(xfer, last_word, last_set)
        begins = z3.Or(z3.And(active == 0, start), z3.And(burst_ends, start))
        c.set_next(active, z3.If(active == 0, z3.If(start, bvc(1, 1), bvc(0, 1)),
                                 z3.If(z3.And(burst_ends, z3.Not(start)), bvc(0, 1), bvc(1, 1))))
        c.set_next(w, z3.If(active == 0, bvc(0, WW), z3.If(xfer, z3.If(last_word, bvc(0, WW), w + 1), w)))
        c.set_next(s, z3.If(active == 0, bvc(0, SW),
                            z3.If(z3.And(xfer, last_word), z3.If(last_set, bvc(0, SW), s + 1), s)))
        # abstraction
        c.inv("idle_iff_not_in_burst", fsm.is_("IDLE") == (active == 0))
        for i in range(n):
            c.inv(f"word_state_{i}", fsm.is_(f"WORD_{i}") == z3.And(active == 1, w == i))
        sent = ts.sig("sent_ordered_sets") if burst > 1 else None                  # zero-width signal for burst 1
        sent = zx(sent, SW) if sent is not None else bvc(0, SW)
        c.inv("set_counter", z3.And(sent == s, z3.ULT(s, burst),
                                    z3.Implies(active == 0, z3.And(s == 0, w == 0)), z3.ULT(w, n)))
        # ensures
        exp_data = sel(w, table, 32)
        if cfg:
            link_fn = z3.Concat(bvc(0, 20), I["request_no_scrambling"], I["request_loopback"], bvc(0, 1), I["request_hot_reset"], bvc(0, 8))
            exp_data = z3.If(w == 1, exp_data | link_fn, exp_data)
        c.ensure("valid_exactly_during_burst", (O["source_valid"] == 1) == (active == 1),
                 clause="produces ... consecutive ordered sets (the source is valid in every cycle of a burst and never outside one)")
        c.ensure("word_w_of_the_set_with_correct_symbols",
                 z3.Implies(active == 1, z3.And(O["source_data"] == exp_data,
                                                O["source_ctrl"] == z3.If(w == 0, bvc(first_ctrl, 4), bvc(0, 4)),
                                                O["source_first"] == z3.If(w == 0, bvc(1, 1), bvc(0, 1)),
                                                O["source_last"] == z3.If(last_word, bvc(1, 1), bvc(0, 1)))),
                 clause="ordered sets with the correct symbols (and requested hot-reset/loopback/no-scrambling bits for TS2), words in order")
        c.ensure("done_exactly_at_last_word_of_configured_number_of_sets", (O["done"] == 1) == burst_ends,
                 clause="an emitter asked for a burst produces exactly the configured number of consecutive ordered sets")
        c.ensure("burst_begins_only_on_start", z3.Implies(z3.And(active == 0, z3.Not(start)), c.nx(O["source_valid"]) == 0),
                 clause="an emitter *asked* for a burst (nothing is emitted without start)")
        c.ensure("burst_begins_one_cycle_after_start", z3.Implies(begins, z3.And(c.nx(O["source_valid"]) == 1, c.nx(O["source_first"]) == 1)),
                 clause="an emitter asked for a burst produces ... (starts with the first word of a set)")
        c.ensure("word_held_until_taken", z3.Implies(z3.And(active == 1, z3.Not(ready)),
                                                     z3.And(c.nx(O["source_valid"]) == 1, c.nx(w) == w, c.nx(s) == s)),
                 clause="all emitter start/ready patterns: a stalled word stays, no word is skipped")
        small = burst * n <= 16
        c.cover("burst_done", O["done"] == 1, reach=small)
        c.cover("stalled", z3.And(active == 1, z3.Not(ready), w == 1))
        c.cover("restart_back_to_back", z3.And(burst_ends, start), reach=small)
        if cfg:
            c.cover("config_word_with_requests", z3.And(active == 1, w == 1, I["request_hot_reset"] == 1, I["request_no_scrambling"] == 1))
        c.cover_depth = 22
    return contract


# ------------------------------------------------------------------------------------------------ detector
def make_detector(name, N):
    real, table, first_ctrl, cfg = SETS[name]
    n = len(table)

    def contract(c):
        d = TSBurstDetector(set_data=real, first_word_ctrl=first_ctrl, sets_in_burst=N, include_config=cfg)
        ports = {"sink_data": d.sink.data, "sink_ctrl": d.sink.ctrl, "sink_valid": d.sink.valid, "sink_ready": d.sink.ready,
                 "detected": d.detected}
        if cfg:
            ports.update(hot_reset=d.hot_reset, loopback_requested=d.loopback_requested, scrambling_disabled=d.scrambling_disabled)
        ts = c.unit(d, ports)
        I, O = ts.inputs, ts.outputs
        table_lemma(c, name)
        fsm = ts.fsm("fsm_state")
        valid, data, ctrl = I["sink_valid"] == 1, I["sink_data"], I["sink_ctrl"]

        def is_w(i):
            if i == 0:
                return z3.And(data == table[0], ctrl == first_ctrl)
            if i == 1 and cfg:      # symbol 5 (link functionality) is free, symbol 4 is reserved: both ignored as in the statement's "configuration bits"
                return z3.And(data & 0xFFFF0000 == table[1], ctrl == 0)
            return z3.And(data == table[i], ctrl == 0)

        KW, CW = n.bit_length() + 1, 16
        k = c.ghost("k", KW)                 # the latest valid words are words 0..k-1 of a well-formed set (k = n: a complete one)
        since = c.ghost("since", CW)         # complete sets since the last report, separated by gaps only
        e1 = c.ghost("e1", 1)                # a set was completed by the previous cycle's word
        trk = c.ghost("trk", 1)              # the set in progress is one the detector follows (see module docstring)
        lost = c.ghost("lost", 1)            # the current run contains a set the detector did not follow
        skip = c.ghost("skip", 1, init=1)    # the detector does not look at its input in this cycle (after reset / after a mismatch)
        w0 = z3.And(valid, is_w(0))
        cont = z3.And(valid, z3.Or(*[z3.And(k == i, is_w(i)) for i in range(1, n)]))
        E = z3.And(valid, k == n - 1, is_w(n - 1))
        at_boundary = z3.Or(k == 0, k == n)
        intr = z3.And(valid, z3.Not(cont), z3.Not(z3.And(w0, at_boundary)))       # "other data": breaks consecutiveness
        # the report being produced in this cycle (= detected one clock later; `detected` is a register)
        rep = [ts.next[kk] for kk, var in ts.state.items() if var.eq(O["detected"])][0] == 1
        c.set_next(k, z3.If(cont, k + 1, z3.If(w0, bvc(1, KW), z3.If(valid, bvc(0, KW), k))))
        inc = z3.If(since == (1 << CW) - 1, since, since + 1)
        c.set_next(since, z3.If(z3.Or(rep, intr), bvc(0, CW), z3.If(E, inc, since)))
        c.set_next(e1, E)
        in_set = z3.And(k != 0, k != n)
        following = z3.And(skip == 0, trk == 1, z3.Or(in_set, z3.And(k == n, e1 == 1)))   # detector is in a <i>_DETECTED state
        mismatch = z3.And(valid, z3.If(k == n, z3.Not(w0), z3.Not(cont)))
        c.set_next(skip, z3.And(following, mismatch))
        c.set_next(trk, z3.If(w0, z3.If(z3.And(skip == 0, z3.Not(z3.And(trk == 1, in_set))), bvc(1, 1), bvc(0, 1)), trk))
        c.set_next(lost, z3.If(z3.Or(rep, intr), bvc(0, 1), z3.If(z3.And(E, trk == 0), bvc(1, 1), lost)))

        # ---- abstraction
        c.inv("k_in_range", z3.ULE(k, n))
        c.inv("e1_means_set_complete", z3.Implies(e1 == 1, k == n))
        c.inv("none_detected_iff_skip", fsm.is_("NONE_DETECTED") == (skip == 1))
        for i in range(1, n):
            c.inv(f"state_{i}_detected", fsm.is_(f"{i}_DETECTED") == z3.And(skip == 0, trk == 1, k == i))
        c.inv(f"state_{n}_detected", fsm.is_(f"{n}_DETECTED") == z3.And(skip == 0, trk == 1, k == n, e1 == 1))
        c.inv("fsm_legal", fsm.legal())
        cnt = zx(ts.sig("consecutive_set_count"), CW)
        pend = z3.If(fsm.is_(f"{n}_DETECTED"), bvc(1, CW), bvc(0, CW))       # the set just completed is counted in the next cycle
        c.inv("count_below_threshold", z3.ULT(cnt, max(N, 1)))
        c.inv("count_never_exceeds_consecutive_sets", z3.Implies(skip == 0, z3.ULE(cnt + pend, since)))
        c.inv("one_behind_when_a_set_was_not_followed", z3.Implies(z3.And(lost == 1, skip == 0), cnt + pend + 1 == since))
        c.inv("untracked_set_starts_a_fresh_run",
              z3.Implies(z3.And(trk == 0, in_set, skip == 0), z3.And(cnt == 0, since == 0, lost == 0)))
        c.inv("skip_cycle_has_no_followed_set", z3.Implies(skip == 1, z3.Or(k == 0, z3.And(k == 1, trk == 0))))
        c.inv("count_is_consecutive_sets_when_all_followed", z3.Implies(z3.And(lost == 0, skip == 0), cnt + pend == since))
        c.inv("skip_cycle_follows_interruption", z3.Implies(skip == 1, z3.And(since == 0, lost == 0, e1 == 0)))
        c.inv("untracked_complete_set_is_lost", z3.Implies(z3.And(k == n, trk == 0, since != 0), lost == 1))
        c.inv("since_bounded", z3.ULE(since, N + 1))
        c.inv("detected_strobe_resets_run", z3.Implies(O["detected"] == 1, z3.And(since == 0, cnt == 0, e1 == 0)))

        # ---- ensures
        c.ensure("S1_report_only_directly_after_a_complete_well_formed_set", z3.Implies(rep, e1 == 1),
                 clause="never reports on other data")
        c.ensure("S2_report_needs_configured_number_of_consecutive_sets", z3.Implies(rep, z3.UGE(since, N)),
                 clause="reports once for every configured number of consecutive, well-formed ordered sets (allowing idle gaps)")
        c.ensure("S3_every_followed_run_of_configured_length_is_reported",
                 z3.Implies(z3.And(e1 == 1, lost == 0, trk == 1, z3.UGE(since, N)), rep),
                 clause="reports once for every configured number of consecutive, well-formed ordered sets (completeness, for runs without an untracked set)")
        c.ensure("S5_detected_is_a_single_cycle_strobe", z3.Implies(O["detected"] == 1, z3.Not(rep)),
                 clause="reports once")
        c.ensure("S5_never_stalls", O["sink_ready"] == 1, clause="all input word streams (the detector only listens)")
        if cfg:
            cfgbits = c.ghost("cfgbits", 3)          # {no scrambling, loopback, hot reset} of the set in progress: symbol 5 bits 3, 2, 0
            c.set_next(cfgbits, z3.If(z3.And(cont, k == 1), z3.Concat(bits(data, 11), bits(data, 10), bits(data, 8)), cfgbits))
            flags = z3.Concat(O["scrambling_disabled"], O["loopback_requested"], O["hot_reset"])
            c.inv("flags_are_config_of_followed_set", z3.Implies(z3.And(skip == 0, trk == 1, z3.UGE(k, 2)), flags == cfgbits))
            c.ensure("S4_configuration_bits_of_the_reported_sets", z3.Implies(rep, z3.And(flags == cfgbits, c.nx(flags) == cfgbits)),
                     clause="reports their configuration bits (hot reset / loopback / scrambling-disabled of the completed set)")
        deep = (N * n + 4) > 22
        if not deep:       # (deep configurations: reachability of a report is shown on the small-N configurations of the same set)
            c.cover("report", rep)
        c.cover("gap_inside_set", z3.And(z3.Not(valid), k == 2, trk == 1, skip == 0))
        c.cover("other_data_after_gap", z3.And(intr, k == n, e1 == 0, trk == 1))
        c.cover("untracked_set_completes", z3.And(E, trk == 0))
        c.cover_depth = 24
    return contract


# ------------------------------------------------------------------------------------------------ caller side
def physical_layer_wiring(c):
    """The detectors themselves live in USB3LinkLayer's TSTransceiver, which taps the physical layer's raw_source (stated on the
    real link layer in c41: training_set_detectors_see_the_raw_receive_stream).  This is the producing side, on the real
    USB3PhysicalLayer (open PIPE interface, every interface signal a free input; see c31.PhysicalLayerUnits): raw_source is the
    RxWordAligner's output - PHY receive words with the SKPs removed and the COMs of the ordered sets on word boundaries, and NOT
    descrambled (training sets are never scrambled) - so 'all input word streams' of the detectors are word-aligned PHY words."""
    from .c31_scrambling import PhysicalLayerUnits, lemmas_receive_chain_head
    U = PhysicalLayerUnits(c)
    lemmas_receive_chain_head(c, U)


def contracts(tier):
    yield ("USB3PhysicalLayer", "wiring_raw_source", physical_layer_wiring)
    if tier == "quick":
        em = [("TS2", 2), ("TS2", 16), ("TSEQ", 65536), ("TS1", 3), ("TS2", 6)]   # 16 / 65536: as instantiated by TSTransceiver; 3, 6: not powers of two
        de = [("TS2", 2), ("TS1", 8), ("TS2", 8), ("TSEQ", 32)]             # 8 / 32: as instantiated by TSTransceiver
    else:
        em = [(s, b) for s in ("TS1", "TS2", "TSEQ", "INVTS1") for b in (1, 2, 3, 4, 7, 16, 255, 65536)]
        de = [(s, b) for s in ("TS1", "TS2", "TSEQ", "INVTS1") for b in (1, 2, 3, 4, 8, 31, 32, 255)]
    for s, b in em:
        yield ("TSEmitter", f"{s}_burst{b}", make_emitter(s, b))
    for s, b in de:
        yield ("TSBurstDetector", f"{s}_x{b}", make_detector(s, b))
