"""C34 — word alignment (RxWordAligner, RxPacketAligner) places alignment sequences on word boundaries without
corrupting data.

Observer's view.  The input is the sequence of *valid* sink words W_0, W_1, ...; its symbols are numbered 4*t + lane.
Ghost `pw` = the most recent valid input word ({ctrl, data}; zero before the first one) — defined from the sink only.
When word W_t is presented, the two-word *window* is  w[0..3] = pw = W_(t-1),  w[4..7] = W_t.

Everything is stated on the unit's outputs:  s = alignment_offset (the offset that goes with the word currently on the
source),  s' = its value one clock later (the offset that goes with the word produced from the present input).

    E1  the word produced from W_t is  w[s' .. s'+3]   i.e. input symbols 4(t-1)+s' ... 4(t-1)+s'+3, in order.
        For two consecutive valid words with the same offset these ranges are adjacent: nothing lost, nothing duplicated,
        the output is the input delayed (one word plus s symbols) and re-grouped.
    E2  the offset only changes in a cycle in which a valid word completes an alignment sequence somewhere in the window
        ("shifts all following data by the same offset ... while the offset is unchanged").
    E3  if an alignment sequence lies at window position i (0..3: every byte offset), the new offset s' is a position at
        which a sequence lies, hence (E1) the produced word IS the sequence: it is presented as a whole word.
        (When sequences overlap — five or more COMs — any of the matching positions satisfies the statement; the contract
        does not prescribe which one.)
    E4  one output word per valid input word, one clock later; invalid words produce no output and change nothing.
    E5  the aligner never stalls its input.

Alignment sequence: RxWordAligner: COM COM COM COM.  RxPacketAligner: SHP SHP SHP EPF or SLC SLC SLC EPF.
Symbol codes are written here from USB 3.2 table 6-2 (not imported from the code under verification).
"""
import z3
from hwv.contract import B, bvc, bits, zx
from luna.gateware.usb.usb3.physical.alignment import RxWordAligner, RxPacketAligner

K = lambda x, y: (1 << 8) | (y << 5) | x          # 9-bit {ctrl=1, data}
COM, SHP, SLC, EPF = K(28, 5), K(27, 7), K(30, 7), K(23, 7)
PATTERNS = {
    "RxWordAligner": [(COM, COM, COM, COM)],
    "RxPacketAligner": [(SHP, SHP, SHP, EPF), (SLC, SLC, SLC, EPF)],
}


def make(cls):
    def contract(c):
        d = cls()
        ts = c.unit(d, {"sink_data": d.sink.data, "sink_ctrl": d.sink.ctrl, "sink_valid": d.sink.valid,
                        "sink_ready": d.sink.ready, "source_data": d.source.data, "source_ctrl": d.source.ctrl,
                        "source_valid": d.source.valid, "alignment_offset": d.alignment_offset})
        I, O = ts.inputs, ts.outputs
        valid = I["sink_valid"] == 1

        pw_data, pw_ctrl = c.ghost("pw_data", 32), c.ghost("pw_ctrl", 4)
        c.set_next(pw_data, z3.If(valid, I["sink_data"], pw_data))
        c.set_next(pw_ctrl, z3.If(valid, I["sink_ctrl"], pw_ctrl))

        def sym(data, ctrl, i):
            return z3.Concat(bits(ctrl, i), bits(data, 8 * i + 7, 8 * i))
        window = [sym(pw_data, pw_ctrl, i) for i in range(4)] + [sym(I["sink_data"], I["sink_ctrl"], i) for i in range(4)]
        pats = PATTERNS[cls.__name__]

        def match(i):
            return z3.Or(*[z3.And(*[window[i + j] == p[j] for j in range(4)]) for p in pats])
        any_match = z3.Or(*[match(i) for i in range(4)])

        s, s2 = O["alignment_offset"], c.nx(O["alignment_offset"])
        out2 = [c.nx(sym(O["source_data"], O["source_ctrl"], j)) for j in range(4)]

        # abstraction: the two internal registers are the observer's "previous valid word" and the reported offset
        c.inv("previous_word_register_is_last_valid_word",
              z3.And(ts.sig("previous_data") == pw_data, ts.sig("previous_ctrl") == pw_ctrl))
        c.inv("shift_register_is_reported_offset", ts.sig("shift_to_apply") == s)

        for i in range(4):
            c.ensure(f"E1_output_is_window_at_offset_{i}",
                     z3.Implies(z3.And(valid, s2 == i), z3.And(*[out2[j] == window[i + j] for j in range(4)])),
                     clause="the output is the input delayed and re-grouped with no symbol lost or duplicated while the "
                            "offset is unchanged (produced word = input symbols offset..offset+3 of the two-word window)")
        c.ensure("E2_offset_changes_only_on_alignment_sequence",
                 z3.Implies(z3.Not(z3.And(valid, any_match)), s2 == s),
                 clause="shifts all following data by the same offset (the offset is kept until another alignment sequence arrives)")
        c.ensure("E3_sequence_at_any_offset_is_presented_as_a_whole_word",
                 z3.Implies(z3.And(valid, any_match),
                            z3.And(z3.Or(*[z3.And(s2 == i, match(i)) for i in range(4)]),
                                   z3.Or(*[z3.And(*[out2[j] == p[j] for j in range(4)]) for p in pats]))),
                 clause="after a four-COM sequence is received at any byte offset, the aligned output presents that sequence as a whole word")
        c.ensure("E4_one_output_word_per_valid_input_word", c.nx(O["source_valid"]) == I["sink_valid"],
                 clause="no symbol lost or duplicated (one word out per valid word in; invalid words produce none)")
        c.ensure("E5_never_stalls", O["sink_ready"] == 1, clause="no symbol lost (input is never refused)")

        for i in range(4):
            c.cover(f"sequence_at_offset_{i}_changes_offset", z3.And(valid, match(i), s != i, *[z3.Not(match(j)) for j in range(i + 1, 4)]))
        c.cover("data_after_realignment", z3.And(valid, z3.Not(any_match), s == 3, pw_ctrl == 0))
        c.cover("invalid_word_with_offset", z3.And(z3.Not(valid), s == 2))
        c.cover_depth = 8
    return contract


# ------------------------------------------------------------------------------------------------ caller side
def physical_layer_wiring(c):
    """USB3PhysicalLayer.elaborate() (real parent, open PIPE interface, every interface signal a free input; see
    c31.PhysicalLayerUnits): where the two aligners sit in the receive chain.
        PHY rx word -> CTCSkipRemover -> RxWordAligner -> (raw_source; Descrambler) -> RxPacketAligner -> source
    The word aligner works on the SKP-free stream (so that 'no symbol lost or duplicated' is about the symbols the partner sent),
    its output is what the descrambler and the raw tap get, the packet aligner works on the descrambled stream and its output
    is the layer's source; alignment_offset is the word aligner's."""
    from .c31_scrambling import PhysicalLayerUnits, lemmas_receive_chain_head, lemmas_descrambler_hookup, lemmas_receive_chain_tail
    U = PhysicalLayerUnits(c)
    lemmas_receive_chain_head(c, U)
    lemmas_descrambler_hookup(c, U)
    lemmas_receive_chain_tail(c, U)
    c.lemma("layer_alignment_offset_is_the_word_aligners", U.S(U.d.alignment_offset, U.aligner.alignment_offset),
            clause="observe at: alignment_offset (the layer's output is the RxWordAligner's, at its width)")


def contracts(tier):
    yield ("RxWordAligner", "", make(RxWordAligner))
    yield ("RxPacketAligner", "", make(RxPacketAligner))
    yield ("USB3PhysicalLayer", "wiring_alignment", physical_layer_wiring)
