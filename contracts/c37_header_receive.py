"""C37 — received header packets are accepted, acknowledged and buffered exactly (RawHeaderPacketReceiver + HeaderPacketReceiver).

Modular structure (each callee used through its contract):
  * RawHeaderPacketReceiver (real code; its HeaderPacketCRC through the C30 contract, see c40_data_packet_receive.py): decides
    acceptance — `new_packet` iff CRC-5 and CRC-16 valid and sequence number expected; `bad_packet` iff a CRC is wrong.
  * HeaderPacketReceiver (real code, with its real LinkCommandGenerator submodule): buffering, LGOOD / LCRD / LBAD generation,
    ignore-until-retry.  Its RawHeaderPacketReceiver submodule is used through the contract above: while elaborating, the
    class name in luna.gateware.usb.usb3.link.receiver is bound to a subclass with an empty elaborate(), so new_packet /
    bad_packet / bad_sequence / packet become free inputs, constrained by `require`s that restate the raw receiver's ensures.
    Link commands are observed at the LinkCommandGenerator call interface (generate/command/subtype, done); C35 proves that each
    such call puts exactly that command on the wire.

Quantifier: "while the link stays in U0" — for C37 the model is instantiated with enable = 1 and usb_reset = 0 (C38 instantiates
the same model with enable / usb_reset free).  Assumption on the link partner: it sends a header only while it holds a credit
(USB 3.2 §7.2.4.1 flow control); without it "buffered plus advertised never exceeds the buffer count" is not the receiver's to keep.
"""
import contextlib
import z3
from amaranth import Module, Signal
from hwv.contract import B, bvc, bits, bv1, zx
import luna.gateware.usb.usb3.link.receiver as rx_mod
from luna.gateware.usb.usb3.link.header import HeaderPacket
from luna.gateware.usb.usb3.link.command import LinkCommandGenerator
from . import spec
from .c40_data_packet_receive import open_crc_units

SHP, EPF = 0xFB, 0xF7
HPSTART = SHP | SHP << 8 | SHP << 16 | EPF << 24
LGOOD, LCRD, LRTY, LBAD, LXU, LUP, LDN = 0, 1, 2, 3, 6, 8, 11          # USB 3.2 table 7-4 (class, type)
HDR_FIELDS = [("dw0", 32), ("dw1", 32), ("dw2", 32), ("crc16", 16), ("sequence_number", 3), ("dw3_reserved", 3), ("hub_depth", 3),
              ("delayed", 1), ("deferred", 1), ("crc5", 5)]


def cases(*pairs, default):
    e = default
    for cond, val in reversed(pairs):
        e = z3.If(cond, val, e)
    return e


# ===================================================================================== 1. RawHeaderPacketReceiver
HUNT, DW0, DW1, DW2, DW3, CHECK = range(6)


def raw_receiver(c):
    with open_crc_units(rx_mod) as (p16, _p32, made):
        d = rx_mod.RawHeaderPacketReceiver()
        ports = {"sink_valid": d.sink.valid, "sink_data": d.sink.data, "sink_ctrl": d.sink.ctrl, "crc16_out": p16,
                 "new_packet": d.new_packet, "bad_packet": d.bad_packet, "bad_sequence": d.bad_sequence,
                 "expected_sequence": d.expected_sequence}
        for f, _ in HDR_FIELDS:
            ports["pkt_" + f] = getattr(d.packet, f)
        ts = c.unit(d, ports)
    c.functions.append("callee contract: luna.gateware.usb.usb3.link.crc.HeaderPacketCRC (proved in C30)")
    I, O, of = ts.inputs, ts.outputs, ts.of
    u16 = made["crc16"][0]
    valid, data, ctrl = I["sink_valid"] == 1, I["sink_data"], I["sink_ctrl"]
    h16 = c.ghost("crc16_unit_reg", 16, init=0xFFFF)
    c.set_next(h16, z3.If(of(u16.clear) == 1, bvc(0xFFFF, 16),
                          z3.If(of(u16.advance_crc) == 1, spec.crc_step(h16, of(u16.data_input), spec.CRC16_USB3_TAPS), h16)))
    c.require("crc16_unit_contract", I["crc16_out"] == spec.crc_field(h16), why="contract of HeaderPacketCRC proved in C30")
    ph = c.ghost("phase", 3, init=HUNT)
    w = [c.ghost(f"dw{i}", 32) for i in range(4)]          # the four words of the header being received
    P = lambda v: bvc(v, 3)
    is_hp = z3.And(valid, data == HPSTART, ctrl == 0xF)
    c.set_next(ph, cases((ph == HUNT, z3.If(is_hp, P(DW0), P(HUNT))),
                         (ph == CHECK, P(HUNT)), default=z3.If(valid, ph + 1, ph)))
    for i in range(4):
        c.set_next(w[i], z3.If(z3.And(ph == DW0 + i, valid), data, w[i]))
    crc5_ok = bits(w[3], 31, 27) == spec.usb2_crc5(bits(w[3], 26, 16))
    crc16_ok = bits(w[3], 15, 0) == spec.crc_field(h16)
    seq_ok = bits(w[3], 18, 16) == I["expected_sequence"]
    fsm = ts.fsm("fsm_state")
    c.inv("fsm_legal", fsm.legal())
    c.inv("phase_legal", z3.ULE(ph, CHECK))
    for st, code in (("WAIT_FOR_HPSTART", HUNT), ("RECEIVE_DW0", DW0), ("RECEIVE_DW1", DW1), ("RECEIVE_DW2", DW2),
                     ("RECEIVE_DW3", DW3), ("CHECK_PACKET", CHECK)):
        c.inv(f"{st.lower()}_is_phase", fsm.is_(st) == (ph == code))
    S = lambda n: ts.sig("HeaderPacket__" + n)
    c.inv("words_captured", z3.And(z3.Implies(z3.UGE(ph, DW1), S("dw0") == w[0]), z3.Implies(z3.UGE(ph, DW2), S("dw1") == w[1]),
                                   z3.Implies(z3.UGE(ph, DW3), S("dw2") == w[2])))
    c.inv("fourth_word_captured", z3.Implies(ph == CHECK, z3.And(
        S("crc16") == bits(w[3], 15, 0), S("sequence_number") == bits(w[3], 18, 16), S("dw3_reserved") == bits(w[3], 21, 19),
        S("hub_depth") == bits(w[3], 24, 22), S("delayed") == bits(w[3], 25), S("deferred") == bits(w[3], 26),
        S("crc5") == bits(w[3], 31, 27), ts.sig("expected_crc5") == spec.usb2_crc5(bits(w[3], 26, 16)))))
    accepted = z3.And(ph == CHECK, crc5_ok, crc16_ok, seq_ok)
    c.ensure("accepted_iff_crcs_valid_and_sequence_expected", (c.nx(O["new_packet"]) == 1) == accepted,
             clause="A received header packet is accepted iff its CRC5 and CRC16 are valid and its sequence number is the expected one")
    c.ensure("bad_packet_iff_a_crc_is_wrong", (O["bad_packet"] == 1) == z3.And(ph == CHECK, z3.Not(z3.And(crc5_ok, crc16_ok))),
             clause="A corrupted header [is reported as bad: exactly when CRC-5 or CRC-16 does not match]")
    c.ensure("bad_sequence_iff_crcs_valid_and_sequence_unexpected",
             (O["bad_sequence"] == 1) == z3.And(ph == CHECK, crc5_ok, crc16_ok, z3.Not(seq_ok)),
             clause="... and its sequence number is the expected one (otherwise a sequence error is reported, never an acceptance)")
    c.ensure("accepted_header_is_delivered_unchanged", z3.Implies(accepted, z3.And(
        c.nx(O["pkt_dw0"]) == w[0], c.nx(O["pkt_dw1"]) == w[1], c.nx(O["pkt_dw2"]) == w[2], c.nx(O["pkt_crc16"]) == bits(w[3], 15, 0),
        c.nx(O["pkt_sequence_number"]) == bits(w[3], 18, 16), c.nx(O["pkt_dw3_reserved"]) == bits(w[3], 21, 19),
        c.nx(O["pkt_hub_depth"]) == bits(w[3], 24, 22), c.nx(O["pkt_delayed"]) == bits(w[3], 25),
        c.nx(O["pkt_deferred"]) == bits(w[3], 26), c.nx(O["pkt_crc5"]) == bits(w[3], 31, 27))),
        clause="each accepted header is offered ... [with exactly the received contents]")
    c.ensure("packet_output_only_changes_on_acceptance", z3.Implies(z3.Not(accepted), z3.And(
        *[c.nx(O["pkt_" + f]) == O["pkt_" + f] for f, _ in HDR_FIELDS])), clause="(frame: a rejected header leaves the output untouched)")
    c.ensure("crc16_covers_exactly_the_three_header_words", z3.And(
        (of(u16.clear) == 1) == (ph == HUNT), (of(u16.advance_crc) == 1) == z3.And(z3.Or(ph == DW0, ph == DW1, ph == DW2), valid),
        of(u16.data_input) == data), clause="its CRC16 [is that of DW0..DW2 of this header]")
    c.cover("accepted", O["new_packet"] == 1)
    c.cover("bad_crc16", z3.And(ph == CHECK, crc5_ok, z3.Not(crc16_ok)))
    c.cover("bad_crc5", z3.And(ph == CHECK, z3.Not(crc5_ok), crc16_ok))
    c.cover("bad_sequence", O["bad_sequence"] == 1)
    c.cover("idle_word_inside_header", z3.And(ph == DW2, z3.Not(valid)))
    c.cover_depth = 10


# ===================================================================================== 2. HeaderPacketReceiver
@contextlib.contextmanager
def open_raw_receiver():
    """RawHeaderPacketReceiver -> open subclass (outputs free), HeaderPacket -> recording subclass (to address the buffers)."""
    pre = {"new_packet": Signal(name="rx_new_packet"), "bad_packet": Signal(name="rx_bad_packet"),
           "bad_sequence": Signal(name="rx_bad_sequence"), "packet": HeaderPacket()}
    made = {"rx": [], "records": []}

    class OpenRawReceiver(rx_mod.RawHeaderPacketReceiver):
        def __init__(self, *a, **k):
            super().__init__(*a, **k)
            self.new_packet, self.bad_packet, self.bad_sequence, self.packet = (pre["new_packet"], pre["bad_packet"],
                                                                               pre["bad_sequence"], pre["packet"])
            made["rx"].append(self)

        def elaborate(self, platform):
            return Module()

    class RecordingHeaderPacket(HeaderPacket):
        def __init__(self):
            super().__init__()
            made["records"].append(self)

    old = rx_mod.RawHeaderPacketReceiver, rx_mod.HeaderPacket
    rx_mod.RawHeaderPacketReceiver, rx_mod.HeaderPacket = OpenRawReceiver, RecordingHeaderPacket
    try:
        yield pre, made
    finally:
        rx_mod.RawHeaderPacketReceiver, rx_mod.HeaderPacket = old


def rec_bits(rec, of):
    return z3.Concat(*[of(getattr(rec, f)) for f, _ in reversed(HDR_FIELDS)])


G_IDLE, G_HEADER, G_COMMAND = 0, 1, 2
N = 4     # buffer count (the only value the link layer instantiates)


class HPRModel:
    def __init__(self, c, u0_only):
        with open_raw_receiver() as (pre, made):
            d = rx_mod.HeaderPacketReceiver()
            q = d.queue
            ports = {"enable": d.enable, "usb_reset": d.usb_reset, "source_valid": d.source.valid, "source_data": d.source.data,
                     "source_ctrl": d.source.ctrl, "source_ready": d.source.ready, "queue_valid": q.valid, "queue_ready": q.ready,
                     "retry_received": d.retry_received, "retry_required": d.retry_required, "lrty_pending": d.lrty_pending,
                     "recovery_required": d.recovery_required, "link_command_sent": d.link_command_sent,
                     "keepalive_required": d.keepalive_required, "packet_received": d.packet_received,
                     "bad_packet_received": d.bad_packet_received, "reject_power_state": d.reject_power_state,
                     "rx_new_packet": pre["new_packet"], "rx_bad_packet": pre["bad_packet"], "rx_bad_sequence": pre["bad_sequence"]}
            for f, _ in HDR_FIELDS:
                ports["rx_pkt_" + f] = getattr(pre["packet"], f)
                ports["queue_" + f] = getattr(q.header, f)
            ts = c.unit(d, ports)
        c.functions.append("callee contracts: RawHeaderPacketReceiver (C37/RawHeaderPacketReceiver), LinkCommandGenerator (C35)")
        self.ts, self.d = ts, d
        I, O, of = ts.inputs, ts.outputs, ts.of
        self.I, self.O = I, O
        rx = made["rx"][0]
        self.buffers = bufs = made["records"][:N]
        gen = ts.instance(LinkCommandGenerator)
        self.gen = gen
        en, rst = I["enable"] == 1, I["usb_reset"] == 1
        if u0_only:
            c.require("link_stays_in_u0", z3.And(en, z3.Not(rst)), why="quantifier of C37: 'while the link stays in U0' (enable held, no USB reset)")
        # ---- observable events
        prev_en = c.ghost("prev_enable", 1, init=0)
        c.set_next(prev_en, I["enable"])
        down = z3.Or(z3.And(prev_en == 1, z3.Not(en)), rst)                   # the link leaves U0 / a USB reset arrives
        self.down, self.prev_en = down, prev_en
        ignoring = c.ghost("ignoring", 1, init=0)                             # a corrupted header was seen, the partner's retry not yet
        newp, badp = I["rx_new_packet"] == 1, I["rx_bad_packet"] == 1
        accept = z3.And(newp, ignoring == 0)                                  # a header is accepted (buffered) in this cycle
        corrupt = z3.And(badp, ignoring == 0)
        self.accept, self.corrupt, self.ignoring = accept, corrupt, ignoring
        c.set_next(ignoring, cases((down, bvc(0, 1)), (I["retry_received"] == 1, bvc(0, 1)), (corrupt, bvc(1, 1)), default=ignoring))
        pkt_in = z3.Concat(*[I["rx_pkt_" + f] for f, _ in reversed(HDR_FIELDS)])
        self.pkt_in = pkt_in
        # generator call interface
        gph = c.ghost("lc_phase", 2, init=G_IDLE)
        generate, gcmd, gsub, gdone = of(gen.generate) == 1, of(gen.command), of(gen.subtype), of(gen.done) == 1
        rdy = I["source_ready"] == 1
        c.set_next(gph, cases((gph == G_IDLE, z3.If(generate, bvc(G_HEADER, 2), bvc(G_IDLE, 2))),
                              (gph == G_HEADER, z3.If(rdy, bvc(G_COMMAND, 2), bvc(G_HEADER, 2))),
                              default=z3.If(rdy, bvc(G_IDLE, 2), bvc(G_COMMAND, 2))))
        cmd_start = z3.And(gph == G_IDLE, generate)                           # a link command is handed to the generator
        self.gph, self.cmd_start, self.gcmd, self.gsub, self.gdone, self.generate = gph, cmd_start, gcmd, gsub, gdone, generate
        cur_cmd = c.ghost("lc_command", 4)
        cur_sub = c.ghost("lc_subtype", 4)
        c.set_next(cur_cmd, z3.If(cmd_start, gcmd, cur_cmd))
        c.set_next(cur_sub, z3.If(cmd_start, gsub, cur_sub))
        self.cur_cmd, self.cur_sub = cur_cmd, cur_sub
        # ---- spec counters (observable events only)
        last_seq = c.ghost("last_received_seq", 3, init=7)                    # sequence number of the last accepted header (−1 initially)
        c.set_next(last_seq, cases((rst, bvc(7, 3)), (accept, I["rx_pkt_sequence_number"]), default=last_seq))
        n_acc = c.ghost("headers_accepted", 16)                               # modulo 2^16; only differences are used
        n_out = c.ghost("headers_delivered", 16)
        n_good = c.ghost("lgoods_started", 16)                                # LGOODs handed to the generator, not counting advertisements
        deliver = z3.And(O["queue_valid"] == 1, I["queue_ready"] == 1)
        self.deliver = deliver
        owed = c.ghost("advertisement_owed", 1, init=1)                       # the next LGOOD is the sequence-number advertisement
        c.set_next(owed, cases((down, bvc(1, 1)), (cmd_start, bvc(0, 1)), default=owed))
        adv_good = z3.And(cmd_start, owed == 1)
        good_start = z3.And(cmd_start, gcmd == LGOOD, owed == 0)
        lcrd_start = z3.And(cmd_start, gcmd == LCRD)
        self.owed, self.good_start, self.lcrd_start, self.adv_good = owed, good_start, lcrd_start, adv_good
        c.set_next(n_acc, cases((down, bvc(0, 16)), (accept, n_acc + 1), default=n_acc))
        # (headers still buffered when the link went down may be handed over late; they belong to the previous link session)
        c.set_next(n_out, cases((down, bvc(0, 16)), (z3.And(deliver, owed == 0), n_out + 1), default=n_out))
        c.set_next(n_good, cases((down, bvc(0, 16)), (good_start, n_good + 1), default=n_good))
        n_lcrd = c.ghost("lcrds_started", 16)                                 # since the last (re-)entry
        c.set_next(n_lcrd, cases((down, bvc(0, 16)), (lcrd_start, n_lcrd + 1), default=n_lcrd))
        self.n_acc, self.n_out, self.n_good, self.n_lcrd, self.last_seq = n_acc, n_out, n_good, n_lcrd, last_seq
        lcrd_in_flight = z3.If(z3.And(gph != G_IDLE, cur_cmd == LCRD), bvc(1, 16), bvc(0, 16))
        lgood_in_flight = z3.If(z3.And(gph != G_IDLE, cur_cmd == LGOOD), bvc(1, 16), bvc(0, 16))
        credits_out = (n_lcrd - lcrd_in_flight) - n_acc                       # credits the partner holds (LCRD completed, not yet used)
        self.credits_out = credits_out
        lbad_due = c.ghost("lbad_due", 1)                                     # a corrupted header was seen and no LBAD completed since
        c.set_next(lbad_due, cases((down, bvc(0, 1)), (corrupt, bvc(1, 1)), (z3.And(gdone, cur_cmd == LBAD), bvc(0, 1)), default=lbad_due))
        self.lbad_due = lbad_due
        # ---- environment
        c.require("no_retry_request_before_advertisement", z3.Implies(owed == 1, I["retry_required"] == 0),
                  why="before our advertisement nothing was transmitted on this link entry, so the partner cannot have rejected a header")
        c.require("retry_only_in_response_to_lbad", z3.Implies(I["retry_received"] == 1, z3.And(lbad_due == 0, z3.Not(newp), z3.Not(badp))),
                  why="the partner sends LRTY only after it has received our LBAD (USB 3.2 §7.2.4.1.4), never while the LBAD is still pending; a link command and a header packet are different words of the one receive stream, so their reports never coincide")
        exp_seq = of(rx.expected_sequence)
        self.exp_seq = exp_seq
        c.require("raw_receiver_contract", z3.And(
            z3.Not(z3.And(newp, badp)), z3.Implies(newp, I["rx_pkt_sequence_number"] == exp_seq),
            z3.Implies(I["rx_bad_sequence"] == 1, z3.And(z3.Not(newp), z3.Not(badp)))),
            why="ensures of RawHeaderPacketReceiver (C37/RawHeaderPacketReceiver): a header is accepted only with the expected sequence "
                "number; accepted / corrupted / out-of-sequence are mutually exclusive (expected_sequence does not change between the "
                "check and the registered new_packet strobe because headers are at least six words apart)")
        c.require("partner_respects_credits", z3.Implies(z3.Or(newp, badp), z3.And(credits_out != 0, z3.ULE(credits_out, N), z3.ULT(n_acc - n_good, N))),
                  why="USB 3.2 §7.2.4.1: the link partner transmits a header packet only while it holds a credit we advertised, and "
                      "keeps at most four header packets unacknowledged (its own header buffers are retired by our LGOODs)")
        if not u0_only:
            c.require("no_traffic_while_down", z3.Implies(z3.Or(z3.Not(en), rst, prev_en == 0), z3.And(
                z3.Not(newp), z3.Not(badp), I["retry_required"] == 0, I["retry_received"] == 0)),
                why="outside U0 (and in the first cycle back) no header packets or link commands are received (LTSSM gates the receive path)")
        # ---- abstraction map
        S = ts.sig
        fsm = ts.fsm("fsm_state")
        self.fsm = fsm
        gfsm = ts.fsm("lc_generator.fsm_state")
        c.inv("fsm_legal", fsm.legal())
        c.inv("lc.fsm_legal", gfsm.legal())
        c.inv("lc.phase_legal", z3.ULE(gph, G_COMMAND))
        for st, code in (("IDLE", G_IDLE), ("TRANSMIT_HEADER", G_HEADER), ("TRANSMIT_COMMAND", G_COMMAND)):
            c.inv(f"lc.{st.lower()}_is_phase", gfsm.is_(st) == (gph == code))
        c.inv("lc.latched", z3.Implies(gph != G_IDLE, z3.And(S("lc_generator.latched_command") == cur_cmd,
                                                             S("lc_generator.latched_subtype") == cur_sub)))
        D = fsm.is_("DISPATCH_COMMAND")
        self.D = D
        c.inv("dispatch_means_generator_idle", z3.Implies(D, gph == G_IDLE))
        sending = {"SEND_ACKS": LGOOD, "ISSUE_CREDITS": LCRD, "SEND_LBAD": LBAD, "SEND_LRTY": LRTY, "SEND_LXU": LXU, "SEND_KEEPALIVE": LUP}
        c.inv("command_in_flight_is_the_state's", z3.And(*[z3.Implies(z3.And(fsm.is_(st), gph != G_IDLE), cur_cmd == cmd)
                                                           for st, cmd in sending.items()]))
        c.inv("last_enable_register", S("last_enable") == prev_en)
        c.inv("ignore_flag", z3.Implies((S("restart_pending") == 0) if ts.has("restart_pending") else z3.BoolVal(True), S("ignore_packets") == ignoring))
        acks, creds, filled = S("acks_to_send"), S("credits_to_issue"), S("buffers_filled")
        self.acks, self.creds, self.filled = acks, creds, filled
        self.pend = pend = (S("restart_pending") == 1) if ts.has("restart_pending") else z3.BoolVal(False)
        settled = z3.Not(pend)                                               # no link-down event waiting to be handled
        self.settled = settled
        # counters (all differences are small; 16-bit modular ghosts)
        in_flight_good = lgood_in_flight == 1
        in_flight_lcrd = lcrd_in_flight == 1
        c.inv("buffers_filled_is_accepted_minus_delivered", z3.Implies(settled, z3.And(zx(filled, 16) == n_acc - n_out, z3.ULE(filled, N))))
        c.inv("pointers", z3.Implies(settled, z3.And(S("write_pointer") == bits(n_acc, 1, 0), S("read_pointer") == bits(n_out, 1, 0))))
        c.inv("acks_to_send_is_accepted_minus_acknowledged", z3.Implies(settled, z3.And(
            zx(acks, 16) + n_good == n_acc + zx(owed, 16) + z3.If(in_flight_good, bvc(1, 16), bvc(0, 16)), z3.ULE(acks, N + 1),
            z3.ULE(n_acc - n_good, N))))
        c.inv("credits_account_for_every_buffer", z3.Implies(settled, z3.And(
            zx(creds, 16) + n_lcrd - z3.If(in_flight_lcrd, bvc(1, 16), bvc(0, 16)) == bvc(N, 16) + n_out,
            z3.ULE(creds, N), z3.ULE(credits_out, N), z3.ULE(n_acc - n_out, N))))
        c.inv("next_credit_follows_lcrd_count", z3.Implies(settled, S("next_credit_to_issue") ==
              bits(n_lcrd - z3.If(in_flight_lcrd, bvc(1, 16), bvc(0, 16)), 1, 0)))
        c.inv("sequence_numbers", z3.Implies(settled, z3.And(
            S("expected_sequence_number") == last_seq + 1,
            S("next_header_to_ack") + bits(acks, 2, 0) == last_seq + 1)))
        c.inv("in_flight_counts_positive", z3.And(z3.Implies(z3.And(settled, fsm.is_("SEND_ACKS")), acks != 0),
                                                  z3.Implies(z3.And(settled, fsm.is_("ISSUE_CREDITS")), creds != 0)))
        c.inv("advertisement_before_anything_else", z3.Implies(z3.And(settled, owed == 1), z3.And(
            z3.Or(D, z3.And(fsm.is_("SEND_ACKS"), gph == G_IDLE, prev_en == 1)), acks == 1, creds == N, filled == 0, n_acc == 0, n_out == 0,
            n_lcrd == 0, n_good == 0, S("lrty_pending") == 0, S("lbad_pending") == 0, ignoring == 0)))
        if u0_only and ts.has("restart_pending"):
            c.inv("no_restart_pending_in_u0", z3.And(z3.Not(pend), *([S("sequence_reset_pending") == 0] if ts.has("sequence_reset_pending") else [])))
        if not u0_only:
            # between a link-down event and the moment the dispatch state re-initialises the unit: the command that was in flight
            # is finishing, nothing new is started, and the spec-side session counters are already those of the new session
            c.inv("restart_pending_window", z3.Implies(pend, z3.And(
                z3.Or(z3.And(D, gph == G_IDLE), z3.And(z3.Not(D), gph != G_IDLE)), owed == 1, n_acc == 0, n_out == 0, n_good == 0,
                n_lcrd == 0, ignoring == 0, lbad_due == 0)))
            if ts.has("sequence_reset_pending"):
                c.inv("sequence_reset_pending_window", z3.And(
                    z3.Implies(S("sequence_reset_pending") == 1, z3.And(pend, last_seq == 7)),
                    z3.Implies(z3.And(pend, S("sequence_reset_pending") == 0), S("expected_sequence_number") == last_seq + 1)))
        c.inv("lbad_pending_is_lbad_due", z3.Implies(settled, z3.And(S("lbad_pending") == lbad_due, z3.Implies(lbad_due == 1, ignoring == 1),
                                                                     z3.Implies(fsm.is_("SEND_LBAD"), lbad_due == 1))))


def header_receiver(c):
    m = HPRModel(c, u0_only=True)
    I, O, ts, of = m.I, m.O, m.ts, m.ts.of
    S = ts.sig
    # witness for exactly-once / in-order delivery
    k = c.rigid("k", 16)
    v = c.ghost("kth_header", 128)
    c.set_next(v, z3.If(z3.And(m.accept, m.n_acc == k), m.pkt_in, v))
    inside = z3.And(z3.ULT(k - m.n_out, m.n_acc - m.n_out))                   # n_out <= k < n_acc (differences < 2^15)
    buf = [rec_bits(b, of) for b in m.buffers]
    sel = lambda idx: cases(*[(idx == i, buf[i]) for i in range(N - 1)], default=buf[N - 1])
    c.inv("witness_sits_in_its_buffer", z3.Implies(inside, sel(bits(k, 1, 0)) == v))
    qhdr = z3.Concat(*[O["queue_" + f] for f, _ in reversed(HDR_FIELDS)])
    c.ensure("accepted_iff_reported_and_not_ignoring", (c.nx(m.n_acc) == m.n_acc + 1) == z3.And(I["rx_new_packet"] == 1, m.ignoring == 0),
             clause="A received header packet is accepted iff [the raw receiver reports it valid] (and headers are not being ignored)")
    c.ensure("offered_exactly_once_and_in_order", z3.And(
        (O["queue_valid"] == 1) == (m.n_acc != m.n_out),
        z3.Implies(z3.And(m.deliver, m.n_out == k), qhdr == v)),
        clause="each accepted header is offered to the protocol layer exactly once and in order (the k-th header handed over is the "
               "k-th header accepted, unchanged; a header is offered iff one is buffered)")
    c.ensure("acknowledged_by_lgood_with_its_sequence_number", z3.Implies(m.good_start, z3.And(
        m.n_acc - m.n_good != 0, z3.ULE(m.n_acc - m.n_good, N), m.gsub == zx(m.last_seq - bits(m.n_acc - m.n_good - 1, 2, 0), 4))),
        clause="[each accepted header] is acknowledged by an LGOOD carrying its sequence number: the j-th LGOOD is sent after the j-th "
               "acceptance and carries the j-th accepted header's sequence number (accepted numbers are consecutive)")
    c.ensure("every_acceptance_schedules_one_lgood", z3.Implies(m.settled, zx(m.acks, 16) + m.n_good ==
             m.n_acc + zx(m.owed, 16) + z3.If(z3.And(m.cur_cmd == LGOOD, m.gph != G_IDLE), bvc(1, 16), bvc(0, 16))),
             clause="is acknowledged by an LGOOD (pending acknowledgements = accepted - acknowledged)")
    c.ensure("corrupted_header_schedules_lbad_and_starts_ignoring", z3.Implies(m.corrupt, z3.And(
        c.nx(S("lbad_pending")) == 1, c.nx(m.ignoring) == 1)),
        clause="A corrupted header triggers an LBAD and all further headers are ignored ...")
    c.ensure("ignored_until_retry", z3.Implies(m.ignoring == 1, z3.And(
        c.nx(m.n_acc) == m.n_acc, z3.Implies(I["retry_received"] == 0, c.nx(m.ignoring) == 1),
        z3.Implies(I["retry_received"] == 1, c.nx(m.ignoring) == 0), O["recovery_required"] == 0)),
        clause="... all further headers are ignored until the partner's retry")
    c.ensure("lbad_only_after_corruption", z3.Implies(z3.And(m.cmd_start, m.gcmd == LBAD), m.lbad_due == 1),
             clause="A corrupted header triggers an LBAD (an LBAD is only ever sent after a corrupted header)")
    c.ensure("credits_only_for_free_buffers_in_order", z3.Implies(m.lcrd_start, z3.And(
        m.gsub == zx(bits(m.n_lcrd, 1, 0), 4), z3.ULT(m.n_lcrd - m.n_out, N), m.owed == 0)),
        clause="credits (LCRD) are advertised only for free buffers, in A-B-C-D order [a credit is sent only for a buffer that was "
               "never filled or has been handed to the protocol layer; after the sequence-number advertisement]")
    c.ensure("buffered_plus_advertised_never_exceed_buffer_count", z3.And(
        z3.ULE((m.n_acc - m.n_out) + (m.n_lcrd - m.n_acc), N), z3.ULE(m.n_acc - m.n_out, N), z3.ULE(m.n_lcrd - m.n_acc, N),
        z3.ULE(m.credits_out, N)),
        clause="so buffered plus advertised headers never exceed the buffer count")
    c.ensure("link_commands_only_when_due", z3.Implies(m.cmd_start, z3.Or(
        m.gcmd == LGOOD, m.gcmd == LCRD, m.gcmd == LBAD, m.gcmd == LRTY, m.gcmd == LXU, m.gcmd == LUP)), clause="(frame)")
    c.cover("header_delivered_after_wrap", z3.And(m.deliver, m.n_out == 4))
    c.cover("lbad_sent", z3.And(m.cmd_start, m.gcmd == LBAD))
    c.cover("retry_clears_ignore", z3.And(m.ignoring == 1, I["retry_received"] == 1))
    c.cover("all_buffers_full", m.n_acc - m.n_out == N)
    c.cover("lgood_for_header", z3.And(m.good_start, m.n_good == 1))
    c.cover_depth = 30 if c.tier == "quick" else 60
    c.timeout_s = max(c.timeout_s, 240)


# ===================================================================================== 3. wiring (caller-side obligations)
# The two contracts above cut at the HeaderPacketReceiver's ports: sink (receive words), retry_received / retry_required (the
# partner's LRTY / LBAD as reported by the link command detector that lives in the PacketTransmitter), enable / usb_reset, the
# header queue to the protocol layer, and the link-command source.  The obligations below are stated on the netlist of the
# real parent USB3LinkLayer (all interface signals free inputs), reaching through the sub-unit hookups down to the real
# RawHeaderPacketReceiver / LinkCommandDetector / LinkCommandGenerator instances.
LGO_U = 4


class LinkLayerUnits:
    """The real USB3LinkLayer (open interfaces, see c46.open_link_layer) and the real sub-unit instances its elaborate() created."""
    def __init__(self, c, freq=125e6):
        from luna.gateware.usb.usb3.link.command import LinkCommandDetector
        from luna.gateware.usb.usb3.link.ltssm import LTSSMController
        from luna.gateware.usb.usb3.link.timers import LinkMaintenanceTimers
        from luna.gateware.usb.usb3.link.idle import IdleHandshakeHandler
        from luna.gateware.usb.usb3.link.transmitter import PacketTransmitter, RawPacketTransmitter
        from luna.gateware.usb.usb3.link.data import DataPacketReceiver, DataPacketTransmitter
        from luna.gateware.usb.usb3.link.header import HeaderQueueArbiter
        from luna.gateware.usb.usb3.link.ordered_sets import TSTransceiver
        from luna.gateware.usb.usb3.link.compliance import CompliancePatternEmitter
        from luna.gateware.usb.stream import SuperSpeedStreamArbiter
        from .c46_ss_in_endpoint import open_link_layer, same
        self.d, self.phy, self.ts = d, phy, ts = open_link_layer(c, freq)
        self.of = ts.of
        one = ts.instance
        self.hrx, self.raw = one(rx_mod.HeaderPacketReceiver), one(rx_mod.RawHeaderPacketReceiver)
        self.det, self.gen = one(LinkCommandDetector), one(LinkCommandGenerator)
        self.ltssm, self.tm, self.idle = one(LTSSMController), one(LinkMaintenanceTimers), one(IdleHandshakeHandler)
        self.ptx, self.raw_tx = one(PacketTransmitter), one(RawPacketTransmitter)
        self.data_rx, self.data_tx = one(DataPacketReceiver), one(DataPacketTransmitter)
        self.hp_mux, self.arb = one(HeaderQueueArbiter), one(SuperSpeedStreamArbiter)
        self.tsx, self.compliance = one(TSTransceiver), one(CompliancePatternEmitter)
        self.S = lambda a, b: same(ts, a, b)

    def is_cmd(self, code):
        return z3.And(self.of(self.det.new_command) == 1, self.of(self.det.command) == code)


def as_bit(cond):
    return z3.If(cond, bvc(1, 1), bvc(0, 1))


def lemmas_enable_and_reset(c, U, unit, name, clause):
    """`unit`.enable / .usb_reset (HeaderPacketReceiver or PacketTransmitter) are the link's U0 / reset state."""
    of, S, d, phy, ltssm = U.of, U.S, U.d, U.phy, U.ltssm
    c.lemma(f"{name}_enable_is_link_ready", S(unit.enable, ltssm.link_ready), clause=clause + ": enable = LTSSM link_ready (U0)")
    c.lemma(f"{name}_usb_reset_is_link_in_reset",
            z3.And(S(unit.usb_reset, d.in_reset), of(d.in_reset) == (of(ltssm.request_hot_reset) | of(ltssm.in_usb_reset)),
                   of(ltssm.in_usb_reset) == (of(phy.lfps_reset_detected) | ~of(phy.vbus_present))),
            clause=clause + ": usb_reset = hot reset requested, or warm-reset LFPS detected, or VBUS absent")


def lemmas_receive_stream(c, U, sinks, clause):
    """Every named receiver looks at the physical layer's descrambled, aligned receive stream."""
    from .c46_ss_in_endpoint import stream_same
    for name, sink in sinks:
        c.lemma(f"{name}_sees_the_physical_layer_receive_stream", stream_same(U.ts, sink, U.phy.source), clause=clause)


def lemmas_link_commands_reach_the_phy(c, U):
    from .c46_ss_in_endpoint import stream_same, raw_stream_to_phy
    ts, S, hrx, gen = U.ts, U.S, U.hrx, U.gen
    c.lemma("receiver_source_is_link_command_generator",
            z3.And(stream_same(ts, hrx.source, gen.source), S(gen.source.ready, hrx.source.ready), S(hrx.link_command_sent, gen.done)),
            clause="link commands are put on the wire by the LinkCommandGenerator inside HeaderPacketReceiver (C35): its stream is the receiver's source")
    raw_stream_to_phy(c, ts, U.arb, 2, hrx.source, gen.source, "link_command_generator", U.phy, "lc")


def link_layer_header_rx_wiring(c):
    from .c46_ss_in_endpoint import header_queue_consumer_sees
    U = LinkLayerUnits(c)
    of, S, ts, d, hrx, ptx, tm = U.of, U.S, U.ts, U.d, U.hrx, U.ptx, U.tm
    # ---- receive words
    lemmas_receive_stream(c, U, [("header_receiver", hrx.sink), ("raw_header_receiver", U.raw.sink), ("link_command_detector", U.det.sink)],
                          clause="A received header packet ... until the partner's retry: HeaderPacketReceiver.sink, the RawHeaderPacketReceiver "
                                 "inside it, and the link command detector (inside PacketTransmitter) see the same receive stream")
    # ---- the partner's retry (LRTY) and retry request (LBAD)
    c.lemma("retry_received_is_partner_LRTY", of(hrx.retry_received) == as_bit(U.is_cmd(LRTY)),
            clause="all further headers are ignored until the partner's retry: HeaderPacketReceiver.retry_received is raised exactly when the "
                   "link command detector reports an LRTY (discharges the reading of retry_received in `retry_only_in_response_to_lbad`)")
    c.lemma("retry_required_is_partner_LBAD", of(hrx.retry_required) == as_bit(U.is_cmd(LBAD)),
            clause="HeaderPacketReceiver.retry_required (schedules our LRTY) is raised exactly when the detector reports the partner's LBAD")
    c.lemma("transmitter_waits_for_our_lrty", S(ptx.lrty_pending, hrx.lrty_pending),
            clause="the transmitter holds retransmissions back while the receiver still owes the LRTY")
    c.lemma("power_state_requests_are_rejected",
            z3.And(of(hrx.reject_power_state) == as_bit(U.is_cmd(LGO_U)), of(hrx.accept_power_state) == 0, of(hrx.acknowledge_power_state) == 0),
            clause="(frame) LXU is requested exactly on a received LGO_Ux; LAU / LPMA never")
    # ---- "while the link stays in U0": enable / reset
    lemmas_enable_and_reset(c, U, hrx, "header_receiver", "while the link stays in U0")
    # ---- accepted headers are offered to the protocol layer
    c.lemma("protocol_layer_header_queue_is_receiver_queue",
            z3.And(header_queue_consumer_sees(ts, d.header_source, hrx.queue), S(hrx.queue.ready, d.header_source.ready)),
            clause="each accepted header is offered to the protocol layer exactly once and in order: the layer's header_source is the "
                   "receiver's queue (valid, every header field; ready back)")
    # ---- LGOOD / LCRD / LBAD / LRTY reach the wire
    lemmas_link_commands_reach_the_phy(c, U)
    # ---- timers / recovery
    c.lemma("keepalive_request_comes_from_link_timers", S(hrx.keepalive_required, tm.schedule_keepalive))
    c.lemma("timers_see_received_headers", S(tm.packet_received, U.raw.new_packet))
    c.lemma("sequence_error_triggers_link_recovery",
            of(U.ltssm.trigger_link_recovery) == (of(tm.transition_to_recovery) | of(hrx.recovery_required) | of(ptx.recovery_required)),
            clause="(USB 3.2 §7.2.4.1.5) a header with an unexpected sequence number sends the link to recovery")


def protocol_layer_header_fanout(c):
    """USB3ProtocolLayer.elaborate(): "each accepted header is offered to the protocol layer exactly once and in order" ends at the
    protocol layer's header consumers.  Between the link layer's header_source and them sits the HeaderQueueDemultiplexer: every
    consumer is shown the queue's head (valid + every field) in the same cycle, and the head leaves the queue exactly when a
    consumer takes it -- so a header is neither shown twice nor popped unseen."""
    from luna.gateware.usb.usb3.protocol.transaction import TransactionPacketReceiver
    from luna.gateware.usb.usb3.protocol.data import DataHeaderReceiver
    from luna.gateware.usb.usb3.protocol.timestamp import TimestampPacketReceiver
    from luna.gateware.usb.usb3.protocol.link_management import LinkManagementPacketHandler
    from .c46_ss_in_endpoint import open_protocol_layer, header_queue_consumer_sees
    d, link, ts = open_protocol_layer(c)
    of = ts.of
    consumers = [ts.instance(k) for k in (LinkManagementPacketHandler, TimestampPacketReceiver, DataHeaderReceiver, TransactionPacketReceiver)]
    for u in consumers:
        c.lemma(f"{type(u).__name__}_sees_the_head_of_the_received_header_queue",
                header_queue_consumer_sees(ts, u.header_sink, link.header_source),
                clause="each accepted header is offered to the protocol layer exactly once and in order: what each protocol-layer "
                       "consumer is shown (valid, every header field) is the head of the link layer's queue in the same cycle")
    c.lemma("received_header_leaves_the_queue_iff_a_consumer_takes_it",
            (of(link.header_source.ready) == 1) == z3.Or(*[of(u.header_sink.ready) == 1 for u in consumers]),
            clause="offered exactly once: the head is popped exactly in a cycle in which a consumer accepts it")
    c.cosim_cycles = 16


def contracts(tier):
    yield ("USB3ProtocolLayer", "wiring_header_fanout", protocol_layer_header_fanout)
    yield ("RawHeaderPacketReceiver", "", raw_receiver)
    yield ("HeaderPacketReceiver", "u0", header_receiver)
    yield ("USB3LinkLayer", "wiring_header_rx", link_layer_header_rx_wiring)


LEVEL = "proof"
EXPLANATION = ("Unbounded inductive proofs for the real RawHeaderPacketReceiver (acceptance iff CRC-5/CRC-16 valid and sequence expected) and "
               "the real HeaderPacketReceiver with its real LinkCommandGenerator (buffering exactly-once/in-order by a symbolic witness header, "
               "LGOOD numbering, LBAD/ignore-until-retry, LCRD order and the credit bound), the raw receiver being used through its contract.")
ASSUMPTIONS = ["link stays in U0 (enable=1, usb_reset=0)", "partner sends headers only while holding a credit and keeps <= 4 unacknowledged",
               "partner sends LRTY only after our LBAD; link-command and header reports never coincide", "CRC unit contract (C30)"]
