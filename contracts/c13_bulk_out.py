"""C13 — USBStreamOutEndpoint (bulk/interrupt OUT): ACK exactly what is delivered, NAK what does not fit, deliver every newly
accepted packet exactly once and in order, mark last/first per transfer.

Unit: the real USBStreamOutEndpoint with its real USBOutStreamBoundaryDetector and TransactionalizedFIFO inlined; the
cut is the EndpointInterface (token detector / data receiver outputs are free inputs constrained by the requires below,
which are the guarantees of USBTokenDetector / USBDataPacketReceiver plus the USB transaction protocol).

Spec model (ghosts, driven by the inputs only; see b1_rxpath for the receive side):
  * a *transaction* starts with tokenizer.new_token;  tgt = token is OUT for my endpoint number;
    tog = expected data toggle: flips on every ACK of new data, cleared by ClearFeature(ENDPOINT_HALT) for this endpoint;
    okay = tgt and the packet's toggle equals tog.
  * queue model n_c / n_p / n_r (committed, pending, read):  a processed byte is *stored* iff okay and the queue is not
    full, *lost* iff okay and full (pkt_lost, cleared by the next token);  two cycles after the packet ended the pending
    bytes are committed iff tgt, CRC good and nothing was lost; otherwise they are discarded.
  * response:  ack  <=> data response for me and (toggle repeated  or  nothing lost)   or   PING response and room for a
    whole max packet;   nak <=> data response, toggle matches, something lost   or   PING response without room.
  * in_transfer: the last *accepted* packet was a full one (a short or zero-length accepted packet ends the transfer).

Findings on the unchanged tree (see EXPLANATION / report): the overflow flag is cleared when the packet is discarded, so a
response requested later than that (full speed: ~10 cycles after the packet) ACKs the discarded packet;  transfer_active
is updated when the final byte is *written* (even if the packet is then discarded) and never by a zero-length packet.
"""
import z3
from hwv.contract import B, bvc, zx, bv1, bits
from luna.gateware.usb.usb2.endpoints.stream import USBStreamOutEndpoint
from luna.gateware.usb.stream import USBOutStreamBoundaryDetector
from luna.gateware.memory import TransactionalizedFIFO
from .b1_rxpath import RxView, QueueView, CW

PID_OUT, PID_PING = 0b0001, 0b0100

EXPLANATION = (
    "1-induction over the extracted transition system of the real USBStreamOutEndpoint (boundary detector and "
    "transactional FIFO inlined). Data integrity by a symbolic witness: k is an arbitrary index into the sequence of "
    "committed bytes; the invariant locates the k-th entry in the FIFO memory; the k-th byte shown on the output stream "
    "equals it (value, last, first).")


def make(max_packet, buffer_size, epnum):
    def contract(c):
        d = USBStreamOutEndpoint(endpoint_number=epnum, max_packet_size=max_packet, buffer_size=buffer_size)
        i, t = d.interface, d.interface.tokenizer
        ts = c.unit(d, {
            "pid": t.pid, "ep": t.endpoint, "is_out": t.is_out, "is_ping": t.is_ping, "new_token": t.new_token,
            "tok_rfr": t.ready_for_response,
            "rx_valid": i.rx.valid, "rx_next": i.rx.next, "rx_payload": i.rx.payload, "rx_complete": i.rx_complete,
            "rx_invalid": i.rx_invalid, "rx_rfr": i.rx_ready_for_response, "rx_tog": i.rx_pid_toggle,
            "clr": i.clear_endpoint_halt_in.as_value(),
            "ack": i.handshakes_out.ack, "nak": i.handshakes_out.nak,
            "s_valid": d.stream.valid, "s_ready": d.stream.ready, "s_payload": d.stream.payload,
            "s_first": d.stream.first, "s_last": d.stream.last})
        I, O = ts.inputs, ts.outputs
        bd = ts.instance(USBOutStreamBoundaryDetector)
        fifo = ts.instance(TransactionalizedFIFO)
        D = fifo.depth
        g = c.ghost

        rx = RxView(c, ts, I, max_packet)
        q = QueueView(c, ts, fifo, D)
        valid, is_open, closing, strobe, pb = rx.valid, rx.is_open, rx.closing, rx.strobe, rx.pb

        # ------------------------------------------------------------ transaction-level spec state
        new_token, resp, tok_rfr = B(I["new_token"]), B(I["rx_rfr"]), B(I["tok_rfr"])
        ep_me = I["ep"] == epnum
        tgt = z3.And(ep_me, I["pid"] == PID_OUT)
        clr_me = z3.And(bits(I["clr"], 0) == 1, bits(I["clr"], 1) == 0, bits(I["clr"], 5, 2) == epnum)
        l_pid, l_ep, l_rxtog = g("last_pid", 4), g("last_ep", 4), g("last_rx_tog", 2)
        c.set_next(l_pid, I["pid"]); c.set_next(l_ep, I["ep"]); c.set_next(l_rxtog, I["rx_tog"])
        tog = g("toggle", 1)
        match = I["rx_tog"] == zx(tog, 2)
        okay = z3.And(tgt, match)
        awaiting = g("awaiting_response", 1)
        c.set_next(awaiting, z3.If(rx.cin, bvc(1, 1), z3.If(resp, bvc(0, 1), awaiting)))
        pkt_lost = g("pkt_lost", 1)
        lose = z3.And(pb, okay, q.full)
        store = z3.And(pb, okay, z3.Not(q.full))
        lost_now = z3.Or(pkt_lost == 1, lose)
        c.set_next(pkt_lost, z3.If(new_token, bvc(0, 1), bv1(lost_now)))
        data_resp = z3.And(resp, tgt)
        ack_new = z3.And(data_resp, match, z3.Not(lost_now))
        ack_repeat = z3.And(data_resp, z3.Not(match))
        nak_data = z3.And(data_resp, match, lost_now)
        c.set_next(tog, z3.If(clr_me, bvc(0, 1), z3.If(ack_new, ~tog, tog)))
        ping_resp = z3.And(ep_me, I["pid"] == PID_PING, tok_rfr)
        room = z3.UGE(q.space, max_packet)
        commit_ev = z3.And(strobe, tgt, rx.st_c == 1, pkt_lost == 0)
        discard_ev = z3.And(strobe, tgt, z3.Or(rx.st_i == 1, z3.And(rx.st_c == 1, pkt_lost == 1)))
        pop = z3.And(O["s_valid"] == 1, I["s_ready"] == 1)
        ends_full = z3.And(closing, okay, rx.pidx == max_packet - 1)
        plen_full = g("packet_was_full", 1)
        c.set_next(plen_full, z3.If(new_token, bvc(0, 1), z3.If(z3.And(closing, okay), bv1(rx.pidx == max_packet - 1), plen_full)))
        in_transfer = g("in_transfer", 1)
        c.set_next(in_transfer, z3.If(ack_new, plen_full | bv1(ends_full), in_transfer))
        e_last = z3.And(closing, rx.pidx != max_packet - 1)               # the byte ends a short packet
        e_first = z3.And(rx.pbf == 1, in_transfer == 0)                   # the byte starts a transfer
        q.drive(store, commit_ev, discard_ev, pop, z3.Concat(bv1(e_first), bv1(e_last), rx.pbd), pkt_lost == 0)
        new_packet = z3.And(valid, rx.pv == 0)
        had_bytes, pkt_committed = g("pkt_had_bytes", 1), g("pkt_committed", 1)
        c.set_next(had_bytes, z3.If(new_packet, bvc(0, 1), z3.If(is_open, bvc(1, 1), had_bytes)))
        c.set_next(pkt_committed, z3.If(new_packet, bvc(0, 1), z3.If(commit_ev, bvc(1, 1), pkt_committed)))

        tok_since = g("token_since_last_packet", 1)
        c.set_next(tok_since, z3.If(new_token, bvc(1, 1), z3.If(new_packet, bvc(0, 1), tok_since)))

        # ------------------------------------------------------------ environment
        busy = z3.Or(valid, rx.pv == 1, rx.in_data_phase, awaiting == 1)
        c.require("token_flags_decode_pid", z3.And((I["is_out"] == 1) == (I["pid"] == PID_OUT),
                                                   (I["is_ping"] == 1) == (I["pid"] == PID_PING)),
                  why="USBTokenDetector drives is_out / is_ping combinationally from pid")
        c.require("rx_pid_toggle_is_one_bit", z3.ULE(I["rx_tog"], 1),
                  why="USBDevice drives rx_pid_toggle from receiver.active_pid[3] (DATA0 -> 0, DATA1 -> 1)")
        c.require("response_only_after_complete_packet", z3.Implies(resp, awaiting == 1),
                  why="rx_ready_for_response is strobed once, at least one cycle after rx_complete (interpacket delay of a "
                      "CRC-valid packet), never after a corrupted one")
        c.require("no_packet_while_response_pending", z3.Implies(valid, awaiting == 0),
                  why="USBDataPacketReceiver ignores the bus during INTERPACKET_DELAY; the host waits for the handshake")
        c.require("data_packet_follows_its_own_token", z3.Implies(z3.And(new_packet, tgt), tok_since == 1),
                  why="OUT transactions: every data packet addressed to this endpoint is preceded by its own OUT token (new_token) "
                      "— this is what makes 'cleared by the next token' mean 'per packet' in the spec model")
        c.require("transaction_not_disturbed",
                  z3.Implies(busy, z3.And(I["pid"] == l_pid, I["ep"] == l_ep, I["rx_tog"] == l_rxtog,
                                          z3.Not(new_token), z3.Not(clr_me))),
                  why="USB transaction protocol: from the first cycle of a data packet until its handshake slot (or, for a "
                      "corrupted packet, until it has drained through the boundary detector) no new token arrives, the token "
                      "fields and the latched data PID are stable, and no ClearFeature(ENDPOINT_HALT) for this endpoint completes")

        # ------------------------------------------------------------ abstraction map
        rx.invariants(bd)
        q.invariants()
        inv = c.inv
        OK = z3.And(l_ep == epnum, l_pid == PID_OUT, l_rxtog == zx(tog, 2))           # okay, as of the previous cycle
        inv("toggle_register", ts.sig("expected_data_toggle") == tog)
        inv("overflow_register", ts.sig("overflow") == pkt_lost)
        inv("transfer_active_register", ts.sig("transfer_active") == in_transfer)
        if ts.has("packet_full"):      # register introduced by proposed_fixes/C13_*.diff; absent in the unfixed design
            inv("packet_full_register", z3.Or(pkt_lost == 1, ts.sig("packet_full") == plen_full))
        rxc = ts.sig("rx_cnt")
        inv("rx_cnt_counts_pending", rxc == z3.Extract(rxc.size() - 1, 0, q.n_p))
        inv("pending_only_in_data_phase", z3.Implies(z3.Not(rx.in_data_phase), q.n_p == 0))
        inv("pending_only_for_my_out_token", z3.Implies(q.n_p != 0, z3.And(l_ep == epnum, l_pid == PID_OUT)))
        inv("pending_at_most_processed", z3.Implies(z3.Or(is_open, closing), z3.ULE(q.n_p, zx(rx.pidx, CW))))
        inv("pending_at_most_max_packet", z3.ULE(q.n_p, max_packet))
        inv("pending_is_whole_packet_so_far_or_nothing",
            z3.Implies(z3.And(z3.Or(is_open, closing), pkt_lost == 0), q.n_p == z3.If(OK, zx(rx.pidx, CW), bvc(0, CW))))
        inv("awaiting_only_between_packets", z3.Implies(awaiting == 1, z3.And(rx.pv == 0, z3.Not(is_open))))
        inv("committed_packet_lost_nothing", z3.Implies(pkt_committed == 1, z3.And(pkt_lost == 0, rx.pv == 0, z3.Not(is_open), z3.Not(closing))))
        inv("had_bytes_when_in_data_phase", z3.Implies(z3.Or(closing, strobe), had_bytes == 1))
        inv("no_bytes_yet_in_empty_raw_packet", z3.Implies(z3.And(rx.pv == 1, z3.Not(is_open)), had_bytes == 0))
        inv("accepted_packet_is_committed_once_drained",
            z3.Implies(z3.And(awaiting == 1, had_bytes == 1, pkt_lost == 0, z3.Not(closing), z3.Not(strobe),
                              l_ep == epnum, l_pid == PID_OUT), pkt_committed == 1))
        inv("awaiting_means_crc_good", z3.Implies(awaiting == 1, z3.And(z3.Implies(closing, rx.cl_c == 1), z3.Implies(strobe, rx.st_c == 1))))

        # ------------------------------------------------------------ ensures
        ens = c.ensure
        ens("ack_iff_delivered_or_repeat_or_ping_with_room",
            (O["ack"] == 1) == z3.Or(ack_new, ack_repeat, z3.And(ping_resp, room)),
            clause="ACKs a packet only if its payload has been (or, for a repeated toggle, already was) delivered; PING is ACKed "
                   "iff a whole max-size packet fits; no ACK at any other time")
        ens("nak_iff_packet_not_taken_or_ping_without_room",
            (O["nak"] == 1) == z3.Or(nak_data, z3.And(ping_resp, z3.Not(room))),
            clause="NAKs when it cannot take a whole packet (a byte of the packet found the buffer full; PING: less than a max "
                   "packet of room); no NAK at any other time")
        ens("acked_new_packet_is_delivered",
            z3.Implies(z3.And(O["ack"] == 1, data_resp, match),
                       z3.And(z3.Not(lost_now), z3.Or(had_bytes == 0, pkt_committed == 1, commit_ev, z3.And(closing, c.nx(commit_ev))))),
            clause="the endpoint ACKs a packet only if its payload has been delivered (committed to the output queue by the "
                   "cycle after the ACK decision; zero-length packets have nothing to deliver)")
        ens("naked_packet_contributes_nothing",
            z3.Implies(z3.And(O["nak"] == 1, data_resp), z3.And(pkt_committed == 0, z3.Not(commit_ev), z3.Not(c.nx(commit_ev)))),
            clause="NAKed packets contribute nothing")
        ens("corrupted_packet_contributes_nothing",
            z3.Implies(z3.And(strobe, rx.st_i == 1), z3.And(c.nx(q.n_c) == q.n_c, c.nx(q.n_p) == 0)),
            clause="corrupted packets contribute nothing (their bytes are discarded, nothing is committed)")
        ens("commit_publishes_whole_packet_or_nothing",
            z3.Implies(z3.And(closing, c.nx(commit_ev)), c.nx(q.n_p) == z3.If(okay, zx(rx.pidx, CW) + 1, bvc(0, CW))),
            clause="the output stream carries the payload of every newly accepted packet: what is committed is the whole packet "
                   "(toggle as expected) or nothing (repeated toggle)")
        ens("fifo_port_follows_the_model",
            z3.And((ts.sig("fifo.write_en") == 1) == store, (ts.sig("fifo.write_commit") == 1) == z3.And(commit_ev, z3.Not(discard_ev)),
                   (ts.sig("fifo.write_discard") == 1) == discard_ev),
            clause="at the FIFO's write port (queue behaviour: C18): a byte is written iff it belongs to a packet with the expected "
                   "toggle addressed to this endpoint and the buffer is not full; commit iff CRC-valid, for me and nothing lost; "
                   "discard iff corrupted or something was lost")
        ens("commit_iff_good_packet_for_me_without_loss",
            c.nx(q.n_c) == z3.If(z3.And(strobe, tgt, rx.st_c == 1, pkt_lost == 0), q.n_c + q.n_p, q.n_c),
            clause="bytes become deliverable exactly when a CRC-valid packet addressed to this endpoint has drained without loss")
        ens("stream_valid_iff_delivered_bytes_unread", (O["s_valid"] == 1) == (q.unread != 0),
            clause="the output stream offers exactly the committed, not yet consumed bytes (any consumer back-pressure)")
        at_k = z3.And(O["s_valid"] == 1, q.n_r == q.k)
        ens("kth_stream_byte_is_kth_committed_byte", z3.Implies(at_k, O["s_payload"] == bits(q.wit, 7, 0)),
            clause="the output stream carries the payload of every newly accepted packet exactly once, in order")
        ens("last_iff_ends_short_packet", z3.Implies(at_k, O["s_last"] == bits(q.wit, 8)),
            clause="a byte is marked last iff it ends a short packet")
        ens("first_iff_starts_transfer", z3.Implies(at_k, O["s_first"] == bits(q.wit, 9)),
            clause="a byte is marked first iff it starts a transfer (first byte of the first packet after an accepted short or "
                   "zero-length packet, or after power-on)")
        ens("toggle_advances_exactly_on_ack_of_new_data",
            c.nx(ts.sig("expected_data_toggle")) == z3.If(clr_me, bvc(0, 1), z3.If(z3.And(O["ack"] == 1, data_resp, match), ~tog, tog)),
            clause="retransmissions with a repeated data toggle: the expected toggle advances exactly when new data is ACKed")

        # ------------------------------------------------------------ covers
        small = max_packet <= 2
        cov = c.cover if small else (lambda n, e: c.cover(n, e, reach=False))    # bigger buffers: deep for BMC from reset
        cov("ack_new_data", ack_new)
        cov("ack_repeated_toggle", ack_repeat)
        cov("nak_overflow", nak_data)
        cov("ack_zero_length_packet", z3.And(ack_new, had_bytes == 0))
        cov("ack_before_commit_high_speed_timing", z3.And(ack_new, closing))
        cov("ack_after_commit_full_speed_timing", z3.And(ack_new, pkt_committed == 1))
        cov("nak_after_discard_full_speed_timing", z3.And(nak_data, z3.Not(rx.in_data_phase)))
        cov("ping_ack", z3.And(ping_resp, room))
        cov("ping_nak", z3.And(ping_resp, z3.Not(room)))
        cov("corrupted_packet_discarded", z3.And(strobe, rx.st_i == 1, tgt, q.n_p != 0))
        cov("stream_last", z3.And(at_k, O["s_last"] == 1, I["s_ready"] == 1))
        cov("stream_first_second_transfer", z3.And(at_k, O["s_first"] == 1, q.n_r != 0))
        cov("full_packet_not_last", z3.And(O["s_valid"] == 1, O["s_last"] == 0, q.unread == 1, z3.Not(rx.in_data_phase), awaiting == 0))
        cov("back_pressure", z3.And(O["s_valid"] == 1, I["s_ready"] == 0))
        cov("packet_for_other_endpoint", z3.And(pb, z3.Not(tgt)))
        c.cover_depth = 12 + 6 * max_packet if small else None
        c.bmc_depth = max(c.bmc_depth, 40)
        c.timeout_s = max(c.timeout_s, 240)      # generous: the cover BMC takes ~5 s alone but shares cores with the obligations
    return contract


# Caller side (w1_usb2_glue): the EndpointInterface inputs this contract constrains by `require`s (token detector and data
# receiver guarantees, rx_pid_toggle = bit 3 of the data PID, clear-halt record) and the ack/nak requests it ensures are
# connected to those units in the real USBEndpointMultiplexer and the real USBDevice.
WIRING = ("tokenizer", "rx", "handshakes_out", "clear_halt", "utmi_tx")


def contracts(tier):
    from .w1_usb2_glue import mux_wiring, device_wiring
    yield ("USBEndpointMultiplexer", "wiring_3_interfaces", mux_wiring(3, WIRING))
    yield ("USBDevice", "wiring_utmi", device_wiring("utmi", WIRING))
    if tier != "quick":
        yield ("USBEndpointMultiplexer", "wiring_2_interfaces", mux_wiring(2, WIRING))
        yield ("USBDevice", "wiring_ulpi", device_wiring("ulpi", WIRING))
    cfgs = [(2, None, 3), (4, 5, 1)] if tier == "quick" else \
           [(2, None, 3), (2, 2, 15), (4, 5, 1), (4, 4, 2), (8, None, 1), (16, 16, 2), (64, None, 3), (64, 200, 4), (512, None, 1)]
    for mp, bs, ep in cfgs:
        yield ("USBStreamOutEndpoint", f"max{mp}_buf{bs if bs is not None else 2 * mp - 1}_ep{ep}", make(mp, bs, ep))
