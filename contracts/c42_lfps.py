"""C42 — LFPS patterns are detected exactly within their timing windows; the generator produces typical bursts.

All times are in cycles of the (possibly scaled) `ss` clock; a window [t_min, t_max] is [ceil(f*t_min), ceil(f*t_max)]
cycles (an envelope sampled at f cannot be resolved better than one cycle).  Table: USB 3.2 table 6-30, written here,
and compared with the repo's pattern objects by a lemma.

LFPSDetector.  Observer ghosts, functions of `signaling_received` only (p = the input two clocks ago: the FFSynchronizer;
all durations are those of p, "post-synchroniser"):
    hi_len   length of the run of high cycles that ended with the previous cycle (0 if p was low)
    since    cycles since the most recent burst start (rising edge of p)
    bL_ok    the most recent completed burst lasted within the burst window
    prev_ok  at the most recent burst start: the burst before it was within the burst window AND the period between the
             two starts was within the repeat window
  Soundness ("reported only after ...", "never reported outside the windows"), purely on these:
    periodic:      detect => a burst starts now, the previous burst was within the burst window, the period since its start
                   is within the repeat window, and the same held at the previous burst start (two consecutive good cycles)
    non-repeating: detect => a burst ends now and its length is within the burst window
  Exactness (<=>) additionally needs to know which bursts the detector looks at: it notices every burst start except one
  that comes in the very cycle after it gave up / finished a measurement with the line low (its edge detector only runs in
  WAIT_FOR_NEXT_BURST, so it is one cycle stale on re-entry).  Ghost `meas` = "the most recent burst start was noticed",
  defined from the observer ghosts.  For noticed bursts the contract proves detect <=> the window conditions.

LFPSGenerator.  Ghosts `active`, `ph` (cycles since the current burst began), from `generate` and time only.
    send_signaling <=> in the first ceil(f*t_burst_typ) cycles of a period;  drive_electrical_idle <=> active or requested;
    completed in the last cycle of the period;  while `generate` is held the next burst starts exactly ceil(f*t_repeat_typ)
    cycles after the previous one.

FINDING on the unchanged tree (generator, witness replayed at 1 MHz): after the last cycle of a period the FSM passes
through IDLE for one clock before the next BURST, so with `generate` held the bursts start ceil(f*t_repeat)+1 cycles apart
(1251 instead of 1250 cycles at 125 MHz), not at the typical period.  Proposed fix:
proposed_fixes/C42_lfps_generator_period_off_by_one.diff.
"""
from fractions import Fraction
import z3
from hwv.contract import B, bvc, bits, zx
from luna.gateware.usb.usb3.physical import lfps as L
from luna.gateware.usb.usb3.physical.lfps import LFPSDetector, LFPSGenerator

# USB 3.2 table 6-30 (seconds, as decimal strings -> exact rationals): (burst min, typ, max), (repeat min, typ, max) or None
_T = {
    "polling": (("0.6e-6", "1.0e-6", "1.4e-6"), ("6.0e-6", "10.0e-6", "14.0e-6")),
    "ping": (("40e-9", None, "160e-9"), ("160e-3", "200e-3", "240e-3")),       # tBurst typ is not specified for Ping.LFPS
    "reset": (("80e-3", "100e-3", "120e-3"), None),
}
_fr = lambda t: None if t is None else Fraction(t)
TABLE = {k: (tuple(_fr(x) for x in b), None if r is None else tuple(_fr(x) for x in r)) for k, (b, r) in _T.items()}


def ceil(x):
    """exact ceiling of a rational (the spec side does not use floating point)"""
    x = Fraction(x)
    return -((-x.numerator) // x.denominator)


def cyc(f, t):
    return ceil(Fraction(repr(float(f))) * t) if not float(f).is_integer() else ceil(int(f) * t)
REAL = {"polling": L._PollingLFPS, "ping": L._PingLFPS, "reset": L._ResetLFPS}


def table_lemma(c, name):
    b, r = TABLE[name]
    p = REAL[name]
    fl = lambda t: None if t is None else float(t)
    same = (p.burst.t_min, p.burst.t_typ, p.burst.t_max) == tuple(fl(x) for x in b) and \
           ((p.repeat is None) == (r is None)) and \
           (r is None or (p.repeat.t_min, p.repeat.t_typ, p.repeat.t_max) == tuple(fl(x) for x in r))
    c.lemma(f"{name}_timing_matches_usb32_table_6_30", z3.BoolVal(bool(same)), clause="the pattern's burst window / repeat window")


def sat_inc(x):
    return z3.If(x == (1 << x.size()) - 1, x, x + 1)


def make_detector(name, f):
    (bmin_t, _, bmax_t), rep = TABLE[name]
    bmin, bmax = cyc(f, bmin_t), cyc(f, bmax_t)
    rmin, rmax = (cyc(f, rep[0]), cyc(f, rep[2])) if rep else (None, None)

    def contract(c):
        d = LFPSDetector(REAL[name], f)
        ts = c.unit(d, {"signaling_received": d.signaling_received, "detect": d.detect})
        I, O = ts.inputs, ts.outputs
        table_lemma(c, name)
        fsm = ts.fsm("fsm_state")
        count = ts.sig("count")
        W = count.size() + 2
        g1, g2, g3 = c.ghost("in_1ago", 1), c.ghost("p", 1), c.ghost("p_1ago", 1)
        c.set_next(g1, I["signaling_received"]); c.set_next(g2, g1); c.set_next(g3, g2)
        p, pd = g2 == 1, g3 == 1
        rising, falling = z3.And(z3.Not(pd), p), z3.And(pd, z3.Not(p))
        hi_len, since = c.ghost("hi_len", W), c.ghost("since", W, init=(1 << W) - 1)
        bL_ok, prev_ok = c.ghost("bL_ok", 1), c.ghost("prev_ok", 1)
        meas, wprev, pair_ok = c.ghost("meas", 1), c.ghost("wprev", 1, init=1), c.ghost("pair_ok", 1)
        c.set_next(hi_len, z3.If(p, sat_inc(hi_len), bvc(0, W)))
        c.set_next(since, z3.If(rising, bvc(1, W), sat_inc(since)))
        inwin = lambda x, lo, hi: z3.And(z3.UGE(x, lo), z3.ULE(x, hi))
        c.set_next(bL_ok, z3.If(falling, inwin(hi_len, bmin, bmax), bL_ok == 1))
        inMB = z3.And(pd, meas == 1, z3.ULE(hi_len, bmax))
        if rep:
            inMR = z3.And(z3.Not(pd), meas == 1, bL_ok == 1, z3.ULE(since, rmax))
            good_cycle = z3.And(bL_ok == 1, inwin(since, rmin, rmax))      # previous burst and the period up to now are in the windows
            c.set_next(prev_ok, z3.If(rising, good_cycle, prev_ok == 1))
        else:
            inMR = z3.BoolVal(False)
            c.set_next(prev_ok, prev_ok)
        noticed = z3.Or(inMR, z3.And(z3.Not(inMB), z3.Not(inMR), wprev == 1))
        c.set_next(meas, z3.If(rising, noticed, meas == 1))
        c.set_next(wprev, z3.And(z3.Not(inMB), z3.Not(inMR)))
        c.set_next(pair_ok, z3.If(rising, z3.And(inMR, z3.UGE(since, rmin)) if rep else z3.BoolVal(False), pair_ok == 1))

        # ---- abstraction
        c.inv("synchroniser_is_two_cycle_delay", z3.And(ts.sig("present_cdc.stage0") == g1, ts.sig("present") == g2))
        c.inv("measure_burst_state", fsm.is_("MEASURE_BURST") == inMB)
        if rep:
            c.inv("measure_repeat_state", fsm.is_("MEASURE_REPEAT") == inMR)
        c.inv("fsm_legal", fsm.legal())
        c.inv("edge_detector_register", ts.sig("delayed") == z3.If(wprev == 1, g3, bvc(1, 1)))
        c.inv("count_in_burst", z3.Implies(inMB, zx(count, W) == hi_len))
        c.inv("burst_run_started_at_last_rising", z3.Implies(pd, since == hi_len))
        c.inv("since_at_least_one", z3.UGE(since, 1))
        c.inv("high_run_nonzero_iff_p_was_high", (hi_len != 0) == pd)
        if rep:
            c.inv("repeat_state_is_never_entered_from_wait", z3.Implies(inMR, wprev == 0))
            c.inv("count_in_repeat", z3.Implies(inMR, zx(count, W) == since))
            c.inv("matched_flag", z3.Implies(z3.Or(inMB, inMR), ts.sig("last_iteration_matched") == pair_ok))
            c.inv("pair_flag_means_previous_cycle_good", z3.Implies(pair_ok == 1, prev_ok == 1))

        # ---- ensures
        det = O["detect"] == 1
        if rep:
            c.ensure("periodic_reported_only_after_two_consecutive_in_window_cycles",
                     z3.Implies(det, z3.And(rising, bL_ok == 1, inwin(since, rmin, rmax), prev_ok == 1)),
                     clause="a periodic LFPS pattern is reported only after consecutive bursts whose durations lie within the "
                            "pattern's burst window and whose repeat periods lie within its repeat window; signalling outside "
                            "the windows is never reported")
            c.ensure("periodic_reported_exactly_for_noticed_bursts",
                     det == z3.And(rising, meas == 1, good_cycle, pair_ok == 1),
                     clause="... is reported (exactly) when the second consecutive in-window burst/period pair completes, for "
                            "bursts whose start the detector noticed")
            c.ensure("second_good_cycle_is_reported",
                     z3.Implies(z3.And(rising, meas == 1, good_cycle), z3.Or(det, c.nx(pair_ok) == 1)),
                     clause="detected exactly within the windows (a good cycle either completes a detection or arms the next one)")
        else:
            c.ensure("nonrepeating_reported_only_after_in_window_burst",
                     z3.Implies(det, z3.And(falling, inwin(hi_len, bmin, bmax))),
                     clause="a non-repeating pattern (warm reset) only after a burst within its window; signalling outside the "
                            "windows is never reported")
            c.ensure("nonrepeating_reported_exactly_for_noticed_bursts",
                     det == z3.And(falling, meas == 1, inwin(hi_len, bmin, bmax)),
                     clause="... reported (exactly) at the end of every noticed burst within the window")
        deep = (3 * (rmin or 0) + bmax + 6 > 60) if rep else (bmin + 6 > 60)
        c.cover("detect", det, reach=not deep)
        c.cover("burst_too_long", z3.And(pd, p, hi_len == bmax, meas == 1), reach=bmax < 50)
        c.cover("unnoticed_burst_start", z3.And(rising, z3.Not(noticed)), reach=bmin > 1 or not rep)
        if rep:
            c.cover("period_too_short", z3.And(rising, inMR, z3.ULT(since, rmin)), reach=bmin + 4 < 50 and rmin > bmin + 1)
        c.cover_depth = 64
    return contract


def make_generator(name, f):
    (_, btyp_t, _), rep = TABLE[name]
    burst, period = cyc(f, btyp_t), cyc(f, rep[1])

    def contract(c):
        d = LFPSGenerator(REAL[name], f)
        ts = c.unit(d, {"generate": d.generate, "completed": d.completed,
                        "drive_electrical_idle": d.drive_electrical_idle, "send_signaling": d.send_signaling})
        I, O = ts.inputs, ts.outputs
        table_lemma(c, name)
        fsm = ts.fsm("fsm_state")
        count = ts.sig("count")
        W = count.size() + 1
        gen = I["generate"] == 1
        active, ph = c.ghost("active", 1), c.ghost("ph", W)
        last = ph == period - 1
        c.set_next(active, z3.If(active == 0, gen, z3.If(last, gen, z3.BoolVal(True))))
        c.set_next(ph, z3.If(z3.Or(active == 0, last), bvc(0, W), ph + 1))
        c.inv("idle_state", fsm.is_("IDLE") == (active == 0))
        c.inv("burst_state", fsm.is_("BURST") == z3.And(active == 1, z3.ULT(ph, burst)))
        c.inv("wait_state", fsm.is_("WAIT") == z3.And(active == 1, z3.UGE(ph, burst)))
        c.inv("phase_counter", z3.And(z3.ULT(ph, period), z3.Implies(active == 1, zx(count, W) == ph), z3.Implies(active == 0, ph == 0)))
        c.ensure("burst_of_typical_length", (O["send_signaling"] == 1) == z3.And(active == 1, z3.ULT(ph, burst)),
                 clause=f"the generator produces bursts of the typical length ({burst} cycles from the start of each period)")
        c.ensure("electrical_idle_driven_during_whole_period", (O["drive_electrical_idle"] == 1) == z3.Or(active == 1, gen),
                 clause="while enabled (drive_electrical_idle held during burst and repeat interval)")
        c.ensure("completed_in_last_cycle_of_period", (O["completed"] == 1) == z3.And(active == 1, last),
                 clause=f"at the typical period ({period} cycles)")
        c.ensure("next_burst_starts_exactly_one_typical_period_later_while_enabled",
                 z3.Implies(z3.And(active == 1, last, gen), c.nx(O["send_signaling"]) == 1),
                 clause="produces bursts ... at the typical period while enabled (burst starts are exactly one period apart)")
        c.ensure("a_period_once_started_is_completed", z3.Implies(z3.And(active == 1, z3.Not(last)), c.nx(active) == 1),
                 clause="bursts of the typical length at the typical period (a period is never cut short)")
        c.ensure("nothing_without_request", z3.Implies(z3.And(active == 0, z3.Not(gen)),
                                                       z3.And(O["send_signaling"] == 0, c.nx(O["send_signaling"]) == 0)),
                 clause="while enabled (no signalling when not requested)")
        small = period <= 40
        c.cover("second_burst_back_to_back", z3.And(active == 1, last, gen), reach=small)
        c.cover("stops_when_disabled", z3.And(active == 1, last, z3.Not(gen)), reach=small)
        c.cover_depth = 2 * period + 6 if small else 8
    return contract


# ------------------------------------------------------------------------------------------------ caller side
SS_CLOCK = 125e6       # the SuperSpeed (PIPE PCLK) frequency; LFPSTransceiver's default, which USB3PhysicalLayer does not override


def _pick(c, U, insts, port, target):
    """the instance among `insts` whose `port` output is, for all states, the signal `target` (selection only: by the driver, not
    by submodule name, creation order or private attributes); None if there is none"""
    want = U.of(target)
    for x in insts:
        try:
            have = U.of(getattr(x, port))
        except Exception:
            continue
        if have.size() != want.size():
            continue
        s = z3.Solver()
        s.set("timeout", 10000)
        s.add(have != want)
        if s.check() == z3.unsat:
            return x
    return None


def physical_layer_wiring(c):
    """USB3PhysicalLayer.elaborate() and the LFPSTransceiver it creates (real parent, open PIPE interface, every interface signal
    a free input; see c31.PhysicalLayerUnits).  For each pattern: the layer's lfps_<pattern>_detected output is the `detect` of an
    LFPSDetector instance that (a) IS the configuration contracted above - LFPSDetector(<pattern>, 125 MHz): same registers and reset
    values, same next-state and output functions - and (b) is fed the PHY's 'not RX_ELECIDLE' envelope.  The generator that drives
    TX_DETRX_LPBK / TX_ELECIDLE is LFPSGenerator(polling, 125 MHz) enabled by the layer's send_lfps_polling."""
    from .c31_scrambling import PhysicalLayerUnits
    from .c46_ss_in_endpoint import instance_is_contracted_unit, path_of
    U = PhysicalLayerUnits(c)
    of, S, d, pipe, lfps, ts = U.of, U.S, U.d, U.pipe, U.lfps, U.ts
    c.lemma("transceiver_envelope_is_not_rx_electrical_idle", of(lfps.signaling_received) == ~of(pipe.rx_elec_idle),
            clause="all received signalling envelopes: signaling_received is the PHY's RX_ELECIDLE de-asserted [TUSB1310A table 3-3]")
    c.lemma("transceiver_has_exactly_three_detectors_and_one_generator", z3.BoolVal(len(U.detectors) == 3 and len(U.generators) == 1))
    for name in ("polling", "ping", "reset"):
        out = getattr(d, f"lfps_{name}_detected")
        det = _pick(c, U, U.detectors, "detect", out)
        c.lemma(f"{name}_detected_is_the_detect_output_of_a_detector", z3.BoolVal(det is not None),
                clause=f"a {name} pattern is reported ...: the layer's lfps_{name}_detected is an LFPSDetector's `detect`")
        if det is None:
            continue
        c.lemma(f"{name}_report_passes_through_the_transceiver", S(getattr(lfps, f"{name}_detected"), det.detect))
        c.lemma(f"{name}_detector_sees_the_receive_envelope",
                z3.And(S(det.signaling_received, lfps.signaling_received), of(det.signaling_received) == ~of(pipe.rx_elec_idle)),
                clause="signalling outside the windows is never reported: the detector measures the PHY's receive envelope")
        instance_is_contracted_unit(c, ts, path_of(ts, det), det, LFPSDetector(REAL[name], SS_CLOCK), ["signaling_received"], ["detect"],
                                    f"{name}_detector_ref",
                                    clause=f"within the pattern's burst window / repeat window: the detector behind lfps_{name}_detected is "
                                           f"LFPSDetector({name}, {SS_CLOCK:g} Hz), the configuration proved above")
    gen = U.generators[0] if U.generators else None
    if gen is not None:
        c.lemma("generator_is_enabled_by_send_lfps_polling",
                z3.And(S(gen.generate, lfps.send_polling), S(lfps.send_polling, d.send_lfps_polling)),
                clause="the generator produces bursts ... while enabled: generate is the layer's send_lfps_polling")
        c.lemma("phy_lfps_drive_is_the_generators",
                z3.And(of(pipe.power_down) == 0, of(pipe.tx_detrx_lpbk) == of(gen.send_signaling),
                       of(pipe.tx_elec_idle) == (of(gen.drive_electrical_idle) | of(d.tx_electrical_idle)),
                       S(lfps.send_signaling, gen.send_signaling), S(lfps.drive_electrical_idle, gen.drive_electrical_idle)),
                clause="observe at send_signaling / drive_electrical_idle: in P0 (power_down is tied to 0) TX_DETRX_LPBK is the generator's "
                       "send_signaling and TX_ELECIDLE its drive_electrical_idle (or the LTSSM's electrical idle)")
        instance_is_contracted_unit(c, ts, path_of(ts, gen), gen, LFPSGenerator(REAL["polling"], SS_CLOCK), ["generate"],
                                    ["completed", "drive_electrical_idle", "send_signaling"], "polling_generator_ref",
                                    clause=f"bursts of the typical length at the typical period: the generator is LFPSGenerator(polling, {SS_CLOCK:g} Hz)")
        # the cycle counter the LTSSM reads (LFPSTransceiver's own glue): completed periods while polling is requested
        sent = of(d.lfps_cycles_sent)
        c.lemma("cycles_sent_is_the_transceivers_counter", S(d.lfps_cycles_sent, lfps.cycles_sent))
        c.ensure("cycles_sent_counts_completed_periods_while_polling_is_requested",
                 c.nx(sent) == z3.If(of(d.send_lfps_polling) == 1, z3.If(of(gen.completed) == 1, sent + 1, sent), bvc(0, sent.size())),
                 clause="(LFPSTransceiver glue) cycles_sent: +1 per completed burst period while send_lfps_polling is held, 0 otherwise")
    c.cosim_cycles = 8


def contracts(tier):
    yield ("USB3PhysicalLayer", "wiring_lfps", physical_layer_wiring)
    if tier == "quick":
        det = [("polling", 125e6), ("polling", 5e6), ("ping", 125e6), ("reset", 125e6), ("reset", 250.0),    # 125 MHz: as built
               ("polling", 1.14e6), ("reset", 2133.0)]   # clocks at which the longest window edge is exactly 2^k cycles (counter width boundary)
        gen = [("polling", 125e6), ("polling", 1e6)]
    else:
        det = [(n, f) for n in ("polling", "ping", "reset") for f in (125e6, 250e6, 62.5e6, 10e6, 5e6, 2.5e6, 1e6)] + \
              [("ping", 100e3), ("ping", 1e3), ("reset", 1e3), ("reset", 250.0), ("reset", 100.0)]
        # (100, 50, 25, 20, 10, 5, 2.5, 0.7 MHz are left out for the generator: there the code's floating-point `ceil(f * 10.0e-6)` is one above
        #  the exact value -- 100.00000000000001 -> 101 --, an artefact of those scaled frequencies only)
        gen = [("polling", f) for f in (250e6, 125e6, 62.5e6, 8e6, 4e6, 2e6, 1e6)]
    for n, f in det:
        yield ("LFPSDetector", f"{n}_{f:g}Hz", make_detector(n, f))
    for n, f in gen:
        yield ("LFPSGenerator", f"{n}_{f:g}Hz", make_generator(n, f))
