"""C22 — ULPI receive path: UTMITranslator rx_data/rx_valid/rx_active + ULPIRxEventDecoder status flags.

Units: the real `UTMITranslator` (handle_clocking=False; with and without a PHY `rst` pin) with its real register
window, control translator, transmit translator and RxEvent decoder in the netlist; and the real `ULPIRxEventDecoder`
standalone (its `register_operation_in_progress` mask is then a free input).

Spec side (ghosts are functions of the PHY pins DIR/NXT/DATA only; ULPI 1.1 §3.8.1/§3.8.2):
    pdir      DIR one cycle ago.
    turnaround cycle        = first cycle of DIR high (nothing on the bus is meaningful)
    RxCmd cycle             = pdir & dir & ~nxt            (and not a register-read data cycle; the translator never
                              issues a register read — proved as invariant — so there are none in its histories)
    data byte cycle         = pdir & dir & nxt & A
    A  (the PHY's RxActive) : 0 when DIR is low; 1 after DIR rises together with NXT (receive start from an idle bus);
                              bit 4 of an RxCmd after an RxCmd (start / end signalled by RxCmd while DIR is already
                              high, e.g. mid line-state update); otherwise unchanged.
    C  the most recent RxCmd byte (`seenC`: there has been one).

Ensures (from the statement):
    rx_valid one cycle later  <=>  data byte cycle now, with rx_data = that byte      ("exactly the data bytes ... in
        order and each once": a fixed one-cycle latency map is a bijection that preserves order; RxCmd and register-read
        bytes are presented with NXT low and so never qualify)
    rx_active: low whenever DIR was low in the previous cycle; high in the cycle after DIR rose with NXT; and always
        equal to A now or A one cycle ago (RxCmd-signalled changes may be reported one cycle later)
    line_state / vbus_valid / session_valid / session_end (and rx_error / host_disconnect / id_digital /
        last_rx_command) are the fields of C (ULPI 1.1 table 3.8.1.2)
    UTMI-wf (exported, other contracts assume it): rx_valid only while rx_active and never in the first rx_active cycle.

PHY assumptions (requires): NXT is low in the cycle in which DIR falls (turnaround); after the turnaround cycle the PHY
asserts NXT together with DIR only while its RxActive (as last signalled) is set.

FINDINGS on the unchanged tree (the contract fails there; proposed_fixes/C22_ulpi_rxactive_and_rxcmd_mask.diff passes):
  (a) first byte lost: when a receive is started by an RxCmd (DIR already high) and the PHY presents the first data byte
      in the very next cycle, the byte is not reported: RxCmd -> decoder's registered rx_start -> rx_active is two
      cycles behind the RxCmd, one more than the data path.  Engine witness, replayed on the simulator:
      replays/C22_UTMITranslator_no_rst_pin_post_rx_active_high_after_dir_rises_with_nxt.json (clause rx_valid_iff_...).
  (b) RxCmds are discarded while a register *write* is pending or in progress (the decoder is masked with
      register_window.busy, which is also high while the window merely waits for DIR to fall): line_state/VBUS flags
      then do not equal the most recent RxCmd, and RxCmd-signalled starts/ends are missed.  Obligation
      cons/rxcmd_mask_never_set; hand-written simulator witness replays/C22_manual_masked_rxcmd_during_register_write.py.
  (c) rx_active is driven by *edges* of the decoder's stored RxActive bit, which goes stale when a packet is ended by DIR
      (stored bit stays 1): a later RxCmd-signalled start is then not seen; and DIR-rise-with-NXT followed by an RxCmd
      with RxActive=0 leaves rx_active high until DIR falls.  Obligation cons/rx_active_is_A.

Clauses not covered: register-read responses can only be exercised on the standalone decoder (mask input free): the
UTMITranslator never issues register reads (invariant `window_never_reads`), so in its histories the PHY never returns
read data.
"""
import z3
from amaranth.hdl.rec import Record
from hwv.contract import B, bvc, bits, bv1
from luna.gateware.interface.ulpi import UTMITranslator, ULPIRxEventDecoder, ULPIRegisterWindow

LEVEL = "proof"
EXPLANATION = ("UTMITranslator (with/without rst pin) and standalone ULPIRxEventDecoder; ghosts = PHY-side RxActive and "
               "last RxCmd defined from DIR/NXT/DATA; invariant = registers equal those ghosts; ensures = statement "
               "clauses + exported UTMI-wf; unbounded 1-induction.")
ASSUMPTIONS = ["ULPI PHY: NXT is low in the cycle in which DIR falls (bus turnaround)",
               "ULPI PHY: NXT with DIR (after the turnaround cycle) only while RxActive as last signalled is set",
               "UTMITranslator never issues register reads (proved), so no register-read data cycles occur on its bus"]

CONTROL = ["xcvr_select", "term_select", "op_mode", "suspend", "id_pullup", "dm_pulldown", "dp_pulldown", "chrg_vbus",
           "dischrg_vbus", "use_external_vbus_indicator"]


def ulpi_record(with_rst):
    lay = [('data', [('i', 8), ('o', 8), ('oe', 1)]), ('clk', [('o', 1)]), ('nxt', [('i', 1)]), ('stp', [('o', 1)]),
           ('dir', [('i', 1)])]
    if with_rst:
        lay.append(('rst', [('o', 1)]))
    return Record(lay)


def phy_ghosts(c, dir_, nxt, data, mask=None):
    """Spec-side view of the PHY's receive signalling.  Returns dict of ghosts/terms."""
    dirb, nxtb = B(dir_), B(nxt)
    pdir = c.ghost("pdir", 1, init=0)
    A = c.ghost("A", 1, init=0)
    pA = c.ghost("pA", 1, init=0)
    C = c.ghost("C", 8, init=0)
    seenC = c.ghost("seenC", 1, init=0)
    c.set_next(pdir, dir_)
    rxcmd = z3.And(pdir == 1, dirb, z3.Not(nxtb))
    if mask is not None:
        rxcmd = z3.And(rxcmd, z3.Not(B(mask)))
    dirstart = z3.And(pdir == 0, dirb, nxtb)
    A_next = z3.If(z3.Not(dirb), bvc(0, 1), z3.If(dirstart, bvc(1, 1), z3.If(rxcmd, bits(data, 4), A)))
    c.set_next(A, A_next)
    c.set_next(pA, A)
    c.set_next(C, z3.If(rxcmd, data, C))
    c.set_next(seenC, z3.If(rxcmd, bvc(1, 1), seenC))
    byte_now = z3.And(pdir == 1, dirb, nxtb, A == 1)
    return dict(pdir=pdir, A=A, pA=pA, C=C, seenC=seenC, rxcmd=rxcmd, dirstart=dirstart, byte_now=byte_now,
                A_next=A_next)


def status_ensures(c, O, C, seenC, prefix=""):
    seen = seenC == 1
    f = lambda e: z3.Implies(seen, e)
    cl = "line state/VBUS flags equal the most recent RxCmd"
    c.ensure(prefix + "line_state_is_last_rxcmd", f(O["line_state"] == bits(C, 1, 0)), clause=cl)
    c.ensure(prefix + "vbus_valid_is_last_rxcmd", f((O["vbus_valid"] == 1) == (bits(C, 3, 2) == 3)), clause=cl)
    c.ensure(prefix + "session_valid_is_last_rxcmd", f((O["session_valid"] == 1) == (bits(C, 3, 2) == 2)), clause=cl)
    c.ensure(prefix + "session_end_is_last_rxcmd", f((O["session_end"] == 1) == (bits(C, 3, 2) == 0)), clause=cl)
    cl2 = cl + " (remaining RxCmd fields, ULPI 1.1 table 3.8.1.2)"
    c.ensure(prefix + "rx_error_is_last_rxcmd", f((O["rx_error"] == 1) == (bits(C, 5, 4) == 3)), clause=cl2)
    c.ensure(prefix + "host_disconnect_is_last_rxcmd", f((O["host_disconnect"] == 1) == (bits(C, 5, 4) == 2)), clause=cl2)
    c.ensure(prefix + "id_digital_is_last_rxcmd", f(O["id_digital"] == bits(C, 6)), clause=cl2)
    c.ensure(prefix + "last_rx_command_is_last_rxcmd", f(O["last_rx_command"] == C), clause=cl2)


def make_translator(with_rst):
    def contract(c):
        u = ulpi_record(with_rst)
        d = UTMITranslator(ulpi=u, handle_clocking=False)
        ports = {"dir": u.dir.i, "nxt": u.nxt.i, "data_i": u.data.i, "data_o": u.data.o, "oe": u.data.oe, "stp": u.stp.o,
                 "rx_data": d.rx_data, "rx_valid": d.rx_valid, "rx_active": d.rx_active,
                 "tx_data": d.tx_data, "tx_valid": d.tx_valid, "tx_ready": d.tx_ready, "busy": d.busy,
                 "last_rx_command": d.last_rx_command}
        for n, _ in UTMITranslator.RXEVENT_STATUS_SIGNALS:
            ports[n] = getattr(d, n)
        for n in CONTROL:
            ports[n] = getattr(d, n)
        ts = c.unit(d, ports)
        I, O = ts.inputs, ts.outputs
        for n in CONTROL + ["dir", "nxt", "data_i", "tx_data", "tx_valid"]:
            assert n in I, n
        g = phy_ghosts(c, I["dir"], I["nxt"], I["data_i"])
        pdir, A, pA, C, seenC = g["pdir"], g["A"], g["pA"], g["C"], g["seenC"]
        dirb, nxtb = B(I["dir"]), B(I["nxt"])
        dec = ts.instance(ULPIRxEventDecoder)
        win = ts.instance(ULPIRegisterWindow)
        # the children are the real instances (found by class); their registers / FSMs are addressed through the instance's
        # position in the hierarchy, never through the name UTMITranslator.elaborate gives the submodule
        from .c10_unsupported_requests_stall import instance_fsm, instance_sig, instance_regs
        wfsm = instance_fsm(ts, win)

        c.require("phy_nxt_low_when_dir_falls", z3.Implies(z3.And(pdir == 1, z3.Not(dirb)), z3.Not(nxtb)),
                  why="ULPI 1.1: the cycle in which the PHY deasserts DIR is a bus turnaround; the PHY does not assert NXT in it")

        c.require("phy_data_only_during_receive", z3.Implies(z3.And(pdir == 1, dirb, nxtb), A == 1),
                  why="ULPI 1.1: with DIR high (after the turnaround cycle) NXT high marks a USB data byte; the PHY presents "
                      "data bytes only while RxActive, as it last signalled it (DIR rising with NXT / RxCmd bit 4), is set")

        # ---- abstraction map
        # the translator's own one-cycle history of DIR (a local Signal of elaborate()): whichever 1-bit register of the
        # translator's own module is inductively equal to the previous DIR (Houdini) -- its name is not relied upon
        for j, (own_name, var) in enumerate(instance_regs(ts, d)):
            if var.size() == 1:
                c.candidate(f"translator_register_{j}_{own_name or 'anonymous'}_is_prev_dir", var == pdir)
        c.inv("decoder_delayed_dir_is_prev_dir", instance_sig(ts, dec, "direction_delayed") == pdir)
        c.inv("window_fsm_legal", wfsm.legal())
        c.inv("window_never_reads", z3.Not(wfsm.is_("START_READ", "SEND_READ_ADDRESS", "READ_TURNAROUND", "READ_COMPLETE")))
        c.inv("rxcmd_mask_never_set", ts.of(dec.register_operation_in_progress) == 0)
        c.inv("last_rx_command_is_C", ts.of(dec.last_rx_command) == C)
        c.inv("rx_active_is_A", O["rx_active"] == A)
        c.inv("A_only_with_dir", z3.Implies(A == 1, pdir == 1))
        c.inv("seen_or_zero", z3.Implies(seenC == 0, C == 0))
        # expected-output ghosts (what the spec says must be on the UTMI side now)
        ev = c.ghost("exp_valid", 1, init=0)
        ed = c.ghost("exp_data", 8, init=0)
        c.set_next(ev, bv1(g["byte_now"]))
        c.set_next(ed, I["data_i"])
        c.inv("rx_valid_is_expected", O["rx_valid"] == ev)
        c.inv("rx_data_is_expected", O["rx_data"] == ed)
        c.inv("valid_implies_pA", z3.Implies(ev == 1, z3.And(pA == 1, A == 1)))

        # ---- ensures
        n = c.nx
        c.ensure("rx_valid_iff_data_byte_presented", (n(O["rx_valid"]) == 1) == g["byte_now"],
                 clause="the receive stream reports exactly the data bytes the PHY presented with NXT while DIR was high after a "
                        "receive start, each once (one cycle later); RxCmd bytes (NXT low), turnaround cycles and register-read "
                        "responses (NXT low) never appear as data")
        c.ensure("rx_data_is_the_presented_byte", z3.Implies(g["byte_now"], n(O["rx_data"]) == I["data_i"]),
                 clause="... exactly the data bytes the PHY presented, in order (fixed one-cycle latency)")
        c.ensure("no_data_without_nxt_and_dir", z3.Implies(n(O["rx_valid"]) == 1, z3.And(dirb, nxtb, pdir == 1)),
                 clause="RxCmd bytes and register-read responses never appear as data")
        c.ensure("rx_active_low_after_dir_low", z3.Implies(pdir == 0, O["rx_active"] == 0),
                 clause="RxActive follows DIR: it is low in the cycle after any cycle with DIR low")
        c.ensure("rx_active_high_after_dir_rises_with_nxt", z3.Implies(g["dirstart"], n(O["rx_active"]) == 1),
                 clause="RxActive follows DIR: a receive start (DIR rising together with NXT) raises it in the next cycle")
        c.ensure("rx_active_follows_rxcmd_within_a_cycle", z3.Or(O["rx_active"] == A, O["rx_active"] == pA),
                 clause="RxActive follows the PHY's RxCmd and DIR (equal to the PHY's RxActive now or one cycle ago)")
        c.ensure("rx_active_settles", z3.Implies(A == pA, O["rx_active"] == A),
                 clause="RxActive follows the PHY's RxCmd and DIR (equal once the PHY's RxActive has been stable for a cycle)")
        status_ensures(c, O, C, seenC)
        prev_act = c.ghost("prev_rx_active", 1, init=0)           # observer's view of the UTMI output one cycle ago
        c.set_next(prev_act, O["rx_active"])
        c.inv("prev_rx_active_is_pA", prev_act == pA)
        c.ensure("utmi_wf", z3.Implies(O["rx_valid"] == 1, z3.And(O["rx_active"] == 1, prev_act == 1)),
                 clause="UTMI-wf (exported): rx_valid only while rx_active and never in the first rx_active cycle")

        # ---- covers
        c.cover("byte_reported", O["rx_valid"] == 1)
        c.cover("dir_start_then_byte", z3.And(g["byte_now"], pA == 0))
        c.cover("rxcmd_start", z3.And(g["rxcmd"], A == 0, bits(I["data_i"], 4) == 1))
        c.cover("byte_right_after_rxcmd_start", z3.And(g["byte_now"], pA == 0, seenC == 1, bits(C, 4) == 1))
        c.cover("rxcmd_mid_packet", z3.And(g["rxcmd"], A == 1, bits(I["data_i"], 4) == 1, O["rx_valid"] == 1))
        c.cover("rxcmd_end", z3.And(g["rxcmd"], A == 1, bits(I["data_i"], 4) == 0))
        c.cover("abort_by_dir", z3.And(A == 1, z3.Not(dirb), O["rx_valid"] == 1))
        # (with an rst pin the first register write can only start after the 60000-cycle PHY start-up delay: too deep for BMC)
        if not with_rst:
            c.cover("rxcmd_while_register_write_pending", z3.And(g["rxcmd"], ts.of(win.busy) == 1))
        c.cover("rxcmd_active_after_abort_with_stale_active", z3.And(g["rxcmd"], A == 0, bits(C, 4) == 1, bits(I["data_i"], 4) == 1))
        c.cover("vbus_valid", z3.And(O["vbus_valid"] == 1, O["line_state"] == 2))
    return contract


def decoder(c):
    u = Record([("dir", [("i", 1)]), ("nxt", [("i", 1)]), ("data", [("i", 8)])])
    d = ULPIRxEventDecoder(ulpi_bus=u)
    ports = {"dir": u.dir.i, "nxt": u.nxt.i, "data_i": u.data.i, "mask": d.register_operation_in_progress,
             "last_rx_command": d.last_rx_command, "rx_active": d.rx_active, "rx_start": d.rx_start, "rx_stop": d.rx_stop}
    for n, _ in UTMITranslator.RXEVENT_STATUS_SIGNALS:
        ports[n] = getattr(d, n)
    ts = c.unit(d, ports)
    I, O = ts.inputs, ts.outputs
    g = phy_ghosts(c, I["dir"], I["nxt"], I["data_i"], mask=I["mask"])
    C, seenC = g["C"], g["seenC"]
    c.inv("delayed_dir_is_prev_dir", ts.sig("direction_delayed") == g["pdir"])
    c.inv("last_rx_command_is_C", O["last_rx_command"] == C)
    status_ensures(c, O, C, seenC)
    c.ensure("rx_active_flag_is_last_rxcmd", O["rx_active"] == bits(C, 4), clause="RxActive flag of the most recent RxCmd")
    n = c.nx
    c.ensure("rxcmd_sampled_iff_dir_two_cycles_nxt_low_not_register_read",
             n(O["last_rx_command"]) == z3.If(g["rxcmd"], I["data_i"], O["last_rx_command"]),
             clause="flags equal the most recent RxCmd: sampled exactly in RxCmd cycles (DIR high for more than one cycle, NXT "
                    "low, no register read data), never from data bytes, turnaround cycles or register-read responses")
    c.ensure("rx_start_iff_rxcmd_raises_rxactive", (n(O["rx_start"]) == 1) == z3.And(g["rxcmd"], bits(C, 4) == 0, bits(I["data_i"], 4) == 1),
             clause="RxActive follows the PHY's RxCmd: start strobe iff an RxCmd changes RxActive 0->1")
    c.ensure("rx_stop_iff_rxcmd_clears_rxactive", (n(O["rx_stop"]) == 1) == z3.And(g["rxcmd"], bits(C, 4) == 1, bits(I["data_i"], 4) == 0),
             clause="RxActive follows the PHY's RxCmd: stop strobe iff an RxCmd changes RxActive 1->0")
    c.cover("rx_start", O["rx_start"] == 1)
    c.cover("rx_stop", O["rx_stop"] == 1)
    c.cover("masked_register_read_data", z3.And(g["pdir"] == 1, B(I["dir"]), z3.Not(B(I["nxt"])), B(I["mask"])))
    c.cover("vbus_valid", O["vbus_valid"] == 1)


def contracts(tier):
    yield ("UTMITranslator", "no_rst_pin", make_translator(False))
    if tier == "thorough":     # the receive path does not depend on the PHY start-up delay that the rst pin adds
        yield ("UTMITranslator", "with_rst_pin", make_translator(True))
    yield ("ULPIRxEventDecoder", "standalone", decoder)
