"""temporary dev driver (agent W6) - to be removed"""
import os
from contracts.w6_util_wrappers import *
from contracts import w6_util_wrappers as W
LEVEL = "proof"
def contracts(tier):
    sel = os.environ.get("W6_SEL", "")
    for e in W.ila_wrapper_contracts(tier):
        if not sel or sel in e[0] + "/" + e[1]:
            yield e
_old = contracts
def contracts(tier):
    sel = os.environ.get("W6_SEL", "")
    for e in list(W.ila_wrapper_contracts(tier)) + list(W.i2c_wrapper_contracts(tier)):
        if not sel or sel in e[0] + "/" + e[1]:
            yield e
_old2 = contracts
def contracts(tier):
    yield from _old2(tier)
    if tier != "quick":
        yield ("StreamILA", "depth1_pre1_sync_w5", W.stream_ila(1, 1, "sync", (4, 1)))
        yield ("SyncSerialILA", "depth1_pre0_sync_w5", W.sync_serial_ila(1, 0, (4, 1)))
