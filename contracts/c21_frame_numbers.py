"""C21 — frame and microframe numbers track received SOFs (USBDevice, luna/gateware/usb/usb2/device.py).

Unit under contract: the real `USBDevice` on a raw UTMI bus (its real `USBTokenDetector`, reset sequencer, receiver, ...
are all in the netlist), bare and with a standard control endpoint; and on a ULPI PHY (60 MHz, high-speed capable: the
real UTMITranslator is in the netlist and the SOF history is observed at its UTMI outputs, UTMI-wf assumed there).  The contract is end-to-end from the UTMI receive pins: the ghost state is the byte history of
the current packet (`common.UTMIRx`), "a well-formed SOF ended in the previous cycle" (`ev`, with its 11-bit number
`evf`), and the *specified* frame / microframe numbers `gF`, `gM` computed from the sequence of SOFs exactly as the
statement says.  The invariant is the abstraction map (token detector FSM <-> bytes seen, as in C01, plus
`frame_number == gF`, `microframe_number == gM`), the ensures are the statement's clauses.

Timing of the real design: the packet ends (rx_active falls) in cycle t; the token detector's `new_frame` strobe and
the device's `sof_detected` / `new_frame` outputs are high in cycle t+1; `frame_number` / `microframe_number` show the
new values from cycle t+2.
"""
import z3
from hwv.contract import B, bvc, bits, bv1
from luna.gateware.usb.usb2.device import USBDevice
from luna.gateware.interface.utmi import UTMIInterface
from . import spec
from .common import UTMIRx

LEVEL = "proof"
EXPLANATION = ("1-induction over the transition system extracted from the real USBDevice.elaborate(); SOFs are recognised "
               "from the UTMI byte history by the spec-side CRC5/PID functions, not by the design's token detector.")


def make(with_control_endpoint, ulpi=False):
    def contract(c):
        if ulpi:
            return contract_ulpi(c)
        utmi = UTMIInterface()
        d = USBDevice(bus=utmi)
        if with_control_endpoint:
            from usb_protocol.emitters import DeviceDescriptorCollection
            descs = DeviceDescriptorCollection()
            with descs.DeviceDescriptor() as dd:
                dd.idVendor, dd.idProduct = 0x1234, 0x5678
                dd.iManufacturer, dd.iProduct, dd.iSerialNumber = "a", "b", "c"
                dd.bNumConfigurations = 1
            with descs.ConfigurationDescriptor() as cd:
                with cd.InterfaceDescriptor() as idesc:
                    idesc.bInterfaceNumber = 0
                    with idesc.EndpointDescriptor() as e:
                        e.bEndpointAddress = 0x81
                        e.wMaxPacketSize = 64
            d.add_standard_control_endpoint(descs)
        ports = {
            # every UTMI signal the PHY drives is a free input
            "rx_data": utmi.rx_data, "rx_active": utmi.rx_active, "rx_valid": utmi.rx_valid, "tx_ready": utmi.tx_ready,
            "line_state": utmi.line_state, "vbus_valid": utmi.vbus_valid, "session_valid": utmi.session_valid,
            "session_end": utmi.session_end, "rx_error": utmi.rx_error, "host_disconnect": utmi.host_disconnect,
            "id_digital": utmi.id_digital,
            # user-side controls
            "connect": d.connect, "low_speed_only": d.low_speed_only, "full_speed_only": d.full_speed_only,
            # observed
            "frame_number": d.frame_number, "microframe_number": d.microframe_number,
            "sof_detected": d.sof_detected, "new_frame": d.new_frame,
        }
        ts = c.unit(d, ports)
        I, O = ts.inputs, ts.outputs
        body(c, ts, I["rx_active"], I["rx_valid"], I["rx_data"])
    return contract


def contract_ulpi(c):
    """High-speed capable device on a ULPI PHY (60 MHz, the configuration in which microframes exist).  The UTMI receive
    signals are then the outputs of the real UTMITranslator inside the device; the SOF history is observed there and
    UTMI-wf at that boundary is an assumption here (it is an ensures of the ULPI translator contract, C22)."""
    from amaranth.hdl.rec import Record
    u = Record([('data', [('i', 8), ('o', 8), ('oe', 1)]), ('clk', [('o', 1)]), ('nxt', [('i', 1)]), ('stp', [('o', 1)]),
                ('dir', [('i', 1)]), ('rst', [('o', 1)])])
    d = USBDevice(bus=u, handle_clocking=False)
    ports = {"data_i": u.data.i, "nxt": u.nxt.i, "dir": u.dir.i,
             "connect": d.connect, "low_speed_only": d.low_speed_only, "full_speed_only": d.full_speed_only,
             "frame_number": d.frame_number, "microframe_number": d.microframe_number,
             "sof_detected": d.sof_detected, "new_frame": d.new_frame}
    ts = c.unit(d, ports)
    tr = d.utmi          # the real UTMITranslator the device built for the ULPI bus: its UTMI-side ports, by object
    body(c, ts, ts.of(tr.rx_active), ts.of(tr.rx_valid), ts.of(tr.rx_data))


def body(c, ts, rx_active, rx_valid, rx_data):
    I, O = ts.inputs, ts.outputs
    rx = UTMIRx(c, rx_active, rx_valid, rx_data, nbytes=3, cntw=3)
    b0, b1, b2 = rx.b
    inpkt = rx.prev_active == 1
    pid4 = bits(b0, 3, 0)
    # ---- from the statement / USB 2.0 §8.4.3: a well-formed SOF = 3-byte packet, PID SOF with valid check nibble,
    #      11-bit frame number, valid CRC5
    is_tok = z3.And(spec.pid_valid(b0), z3.Or(*[pid4 == p for p in
                    (spec.PID_IN, spec.PID_OUT, spec.PID_SETUP, spec.PID_PING, spec.PID_SOF)]))
    data11 = z3.Concat(bits(b2, 2, 0), b1)
    crc_ok = bits(b2, 7, 3) == spec.usb2_crc5(data11)
    sof_event = z3.And(rx.ends_now, rx.n == 3, spec.pid_valid(b0), pid4 == spec.PID_SOF, crc_ok)

    # ---- spec-side history: SOF seen in the previous cycle, and the specified frame/microframe numbers
    ev = c.ghost("ev", 1, init=0)            # a well-formed SOF ended in the previous cycle
    evf = c.ghost("evf", 11, init=0)         # ... its frame number
    gF = c.ghost("gF", 11, init=0)           # specified frame number = number carried by the most recent SOF
    gM = c.ghost("gM", 3, init=0)            # specified microframe number
    c.set_next(ev, bv1(sof_event))
    c.set_next(evf, z3.If(sof_event, data11, evf))
    changes = z3.And(ev == 1, evf != gF)     # this SOF changes the frame number
    repeats = z3.And(ev == 1, evf == gF)     # this SOF repeats the current frame number
    c.set_next(gF, z3.If(ev == 1, evf, gF))
    c.set_next(gM, z3.If(changes, bvc(0, 3), z3.If(repeats, gM + 1, gM)))

    # ---- abstraction map.  Token detector (same map as C01, on the instance inside the device):
    #      (the instance is found by class; its registers by its position in the hierarchy, not by the submodule name)
    from luna.gateware.usb.usb2.packet import USBTokenDetector
    from .c10_unsupported_requests_stall import instance_fsm, instance_sig
    tdi = ts.instance(USBTokenDetector)
    fsm = instance_fsm(ts, tdi)
    td = lambda n: instance_sig(ts, tdi, n)
    c.inv("td_fsm_legal", fsm.legal())
    c.inv("td_idle", fsm.is_("IDLE") == z3.Not(inpkt))
    c.inv("td_read_pid", fsm.is_("READ_PID") == z3.And(inpkt, rx.n == 0))
    c.inv("td_read_token_0", fsm.is_("READ_TOKEN_0") == z3.And(inpkt, rx.n == 1, is_tok))
    c.inv("td_read_token_1", fsm.is_("READ_TOKEN_1") == z3.And(inpkt, rx.n == 2, is_tok))
    c.inv("td_token_complete", fsm.is_("TOKEN_COMPLETE") == z3.And(inpkt, rx.n == 3, is_tok, crc_ok))
    c.inv("td_pid_captured", z3.Implies(z3.And(inpkt, z3.UGE(rx.n, 1), is_tok), td("current_pid") == pid4))
    c.inv("td_byte1_captured", z3.Implies(z3.And(inpkt, z3.UGE(rx.n, 2), is_tok), bits(td("token_data"), 7, 0) == b1))
    c.inv("td_byte2_captured", z3.Implies(fsm.is_("TOKEN_COMPLETE"), bits(td("token_data"), 10, 8) == bits(b2, 2, 0)))
    c.inv("td_new_frame_is_sof_event", (td("new_frame") == 1) == (ev == 1))
    c.inv("td_frame_is_sof_number", z3.Implies(ev == 1, td("frame") == evf))
    # device registers = specified numbers
    c.inv("frame_number_is_spec", ts.sig("frame_number") == gF)
    c.inv("microframe_number_is_spec", ts.sig("microframe_number") == gM)

    # ---- ensures, clause by clause
    n = c.nx
    c.ensure("frame_number_equals_sof_number",
             z3.Implies(sof_event, n(O["frame_number"], 2) == data11),
             clause="after each well-formed SOF, the reported frame number equals the SOF's 11-bit frame number")
    c.ensure("frame_number_changes_only_by_sof",
             n(O["frame_number"]) == z3.If(ev == 1, evf, O["frame_number"]),
             clause="the reported frame number is the number of the most recent well-formed SOF (other packets, malformed "
                    "or foreign tokens leave it unchanged)")
    c.ensure("microframe_reset_when_frame_changes",
             z3.Implies(z3.And(ev == 1, evf != O["frame_number"]), n(O["microframe_number"]) == 0),
             clause="the microframe number is reset to 0 when the frame number changes")
    c.ensure("microframe_incremented_when_sof_repeats",
             z3.Implies(z3.And(ev == 1, evf == O["frame_number"]), n(O["microframe_number"]) == O["microframe_number"] + 1),
             clause="the microframe number is incremented (mod 8) when a SOF repeats the current frame number")
    c.ensure("microframe_unchanged_without_sof",
             z3.Implies(ev == 0, n(O["microframe_number"]) == O["microframe_number"]),
             clause="(frame) without a SOF the microframe number does not change")
    c.ensure("new_frame_iff_frame_number_changes",
             (O["new_frame"] == 1) == z3.And(ev == 1, evf != O["frame_number"]),
             clause="a new-frame strobe is raised exactly when the frame number changes (one cycle, with the SOF event)")
    c.ensure("new_frame_iff_register_changes",
             (O["new_frame"] == 1) == (n(O["frame_number"]) != O["frame_number"]),
             clause="a new-frame strobe is raised exactly when the frame number changes")
    c.ensure("sof_detected_iff_sof", (n(O["sof_detected"]) == 1) == sof_event,
             clause="sof_detected pulses once for each well-formed SOF (regardless of address) and for nothing else")
    c.ensure("outputs_are_spec_numbers", z3.And(O["frame_number"] == gF, O["microframe_number"] == gM),
             clause="frame/microframe numbers equal the numbers defined by the statement over the whole SOF history")

    # ---- vacuity guards
    c.cover("sof_seen", O["sof_detected"] == 1)
    c.cover("new_frame_strobe", O["new_frame"] == 1)
    c.cover("sof_repeats_frame", z3.And(O["sof_detected"] == 1, O["new_frame"] == 0))
    c.cover("microframe_2", O["microframe_number"] == 2)
    c.cover("frame_changes_after_microframes", z3.And(O["microframe_number"] == 1, O["new_frame"] == 1))
    c.cover("frame_number_0x7ff", O["frame_number"] == 0x7FF)
    c.cover_depth = 30
    c.bmc_depth = max(c.bmc_depth, 40)


def contracts(tier):
    yield ("USBDevice", "utmi_bare", make(False))
    yield ("USBDevice", "utmi_std_control_ep", make(True))
    yield ("USBDevice", "ulpi_60MHz", make(False, ulpi=True))
    # caller side: the SOF events (tokenizer.frame / new_frame, with the rest of the tokenizer record) reach every endpoint
    from .w1_usb2_glue import device_wiring as glue, mux_wiring
    yield ("USBEndpointMultiplexer", "wiring_3_interfaces", mux_wiring(3, ("tokenizer",)))
    yield ("USBDevice", "wiring_utmi", glue("utmi", ("tokenizer", "state")))
