#!/bin/sh
# usage: patchcheck.sh <prop> <patch.diff> [tier]  -- runs ./check on a scratch copy of /repo with the patch applied
P=$(realpath "$2")
D=$(mktemp -d /tmp/pc.XXXXXX)
cp -r /repo/luna $D/luna
( cd $D && patch -p1 -s < "$P" ) || { echo "patch failed"; rm -rf $D; exit 3; }
HWV_REPO=$D /verif/check $1 ${3:+--tier $3}; rc=$?
echo "exit=$rc"
rm -rf $D
exit $rc
