#!/usr/bin/env python3
"""Confirms a seeded change and records the verdict of our check on it.
For each <src>/<id>/ (patch.diff, demo.py, meta.json): in a fresh scratch git worktree of /repo (under /tmp, removed
afterwards) (1) demo on the unpatched tree must exit 0, (2) apply the patch, (3) the repository test-suite must still
pass, (4) demo must now fail; then our check for the property runs against the patched scratch tree.
Kept seeds are copied to /verif/seeded/<id>/ with the results merged into meta.json.
usage: tools_seed_verify.py <srcdir> <id> [<id> ...]"""
import json, os, subprocess, sys, shutil, tempfile
ROOT = os.path.dirname(os.path.abspath(__file__))


def sh(cmd, cwd=None, env=None, timeout=1800):
    r = subprocess.run(cmd, shell=True, cwd=cwd, env=env, capture_output=True, text=True, timeout=timeout)
    return r.returncode, (r.stdout + r.stderr)


def main():
    src = sys.argv[1]
    for sid in sys.argv[2:]:
        d = os.path.join(src, sid)
        meta = json.load(open(os.path.join(d, "meta.json")))
        import re as _re
        ids_ = _re.findall(r"C\d\d", str(meta["property"]))
        if ids_ and meta["property"] != ids_[0]:
            meta["property_as_written"], meta["property"] = meta["property"], ids_[0]
        prop = meta["property"]
        wt = tempfile.mkdtemp(prefix="seedwt.", dir="/tmp")
        os.rmdir(wt)
        ran = []
        try:
            rc, out = sh(f"git -C /repo worktree add -q --detach {wt} HEAD"); assert rc == 0, out
            env = {**os.environ, "PYTHONPATH": wt}
            env.pop("HWV_REPO", None)
            rc0, _ = sh(f"/venv/bin/python {os.path.join(d, 'demo.py')}", cwd=wt, env=env)
            ran.append(f"demo.py on unpatched worktree of /repo HEAD: exit {rc0}")
            rca, out = sh(f"git apply {os.path.join(d, 'patch.diff')}", cwd=wt)
            ran.append(f"git apply patch.diff: exit {rca}")
            rct, out = sh("/venv/bin/python -m pytest -q -p no:cacheprovider --timeout=900 tests 2>&1 | tail -3", cwd=wt, env=env)
            tests_line = out.strip().splitlines()[-1] if out.strip() else ""
            ran.append(f"pytest tests (patched): {tests_line}")
            rc1, _ = sh(f"/venv/bin/python {os.path.join(d, 'demo.py')}", cwd=wt, env=env)
            ran.append(f"demo.py on patched worktree: exit {rc1}")
            cenv = {**os.environ, "HWV_REPO": wt}
            rcc, cout = sh(f"{ROOT}/check {prop}", env=cenv)
            vio = [l for l in cout.splitlines() if l.startswith("VIOLATION")]
            failed = [l.strip() for l in cout.splitlines() if "failed obligation" in l]
            ran.append(f"./check {prop} against the patched tree: exit {rcc}, {len(vio)} VIOLATION line(s)")
            ok = rc0 == 0 and rca == 0 and rc1 != 0 and "passed" in tests_line and "failed" not in tests_line
            meta.update({"confirmed": ok, "what_was_run": ran, "check_exit": rcc, "caught": rcc == 1 and bool(vio),
                         "failed_obligations": failed[:12], "violation_lines": vio[:6]})
            print(sid, "confirmed" if ok else "NOT CONFIRMED", "| caught" if meta["caught"] else "| MISSED", "|", tests_line)
            if ok:
                dst = os.path.join(ROOT, os.environ.get("SEED_DST", "seeded"), sid)
                os.makedirs(dst, exist_ok=True)
                for f in ("patch.diff", "demo.py"):
                    shutil.copy(os.path.join(d, f), os.path.join(dst, f))
                json.dump(meta, open(os.path.join(dst, "meta.json"), "w"), indent=1)
        finally:
            sh(f"git -C /repo worktree remove --force {wt}")
            shutil.rmtree(wt, ignore_errors=True)


if __name__ == "__main__":
    main()
