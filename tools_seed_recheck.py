#!/usr/bin/env python3
"""Re-runs ./check on every kept seed (patched scratch copy of /repo/luna) and reports seeds that are no longer caught.
usage: [SEED_DST=seeded_glue] [JOBS=3] tools_seed_recheck.py [--update] [id ...]
(--update rewrites caught / failed_obligations in meta.json)"""
import json, os, subprocess, sys, shutil, tempfile, glob, concurrent.futures as cf
ROOT = os.path.dirname(os.path.abspath(__file__))
SD = os.environ.get("SEED_DST", "seeded")
args = [a for a in sys.argv[1:] if a != "--update"]
update = "--update" in sys.argv
ids = args or sorted(os.path.basename(d) for d in glob.glob(os.path.join(ROOT, SD, "*")) if os.path.isdir(d))


def one(sid):
    d = tempfile.mkdtemp(prefix="recheck.", dir="/tmp")
    try:
        shutil.copytree("/repo/luna", os.path.join(d, "luna"))
        mp = os.path.join(ROOT, SD, sid, "meta.json")
        meta = json.load(open(mp))
        r = subprocess.run(f"patch -p1 -s < {os.path.join(ROOT, SD, sid, 'patch.diff')}", shell=True, cwd=d, capture_output=True, text=True)
        if r.returncode != 0:
            return sid, "PATCH-FAILED"
        r = subprocess.run([os.path.join(ROOT, "check"), meta["property"]], env={**os.environ, "HWV_REPO": d}, capture_output=True, text=True)
        vio = [l for l in r.stdout.splitlines() if l.startswith("VIOLATION")]
        caught = r.returncode == 1 and bool(vio)
        if update:
            if "caught" in meta and not meta["caught"] and caught:
                meta.setdefault("first_run", {"caught": False, "check_exit": meta.get("check_exit")})
            meta.update({"caught": caught, "check_exit": r.returncode, "violation_lines": vio[:6],
                         "failed_obligations": [l.strip() for l in r.stdout.splitlines() if "failed obligation" in l][:12]})
            json.dump(meta, open(mp, "w"), indent=1)
        return sid, ("caught" if caught else f"MISSED exit={r.returncode}") + f" {len(vio)}"
    finally:
        shutil.rmtree(d, ignore_errors=True)


# contiguous blocks per worker: seeds of one property share replays/ and evidence_scratch/ files, so they never run concurrently
J = max(1, int(os.environ.get("JOBS", "1")))
n = len(ids)
blocks = [ids[k * n // J:(k + 1) * n // J] for k in range(J)]


def block(b):
    for sid in b:
        print(*one(sid), flush=True)


with cf.ThreadPoolExecutor(J) as ex:
    list(ex.map(block, blocks))
