#!/usr/bin/env python3
"""Re-runs ./check on every kept seed (patched scratch copy of /repo/luna) and reports seeds that are no longer caught.
usage: [SEED_DST=seeded_glue] tools_seed_recheck.py [--update] [id ...]     (--update rewrites caught / failed_obligations in meta.json)"""
import json, os, subprocess, sys, shutil, tempfile, glob
ROOT = os.path.dirname(os.path.abspath(__file__))
SD = os.environ.get("SEED_DST", "seeded")
args = [a for a in sys.argv[1:] if a != "--update"]
update = "--update" in sys.argv
ids = args or sorted(os.path.basename(d) for d in glob.glob(os.path.join(ROOT, SD, "*")) if os.path.isdir(d))
for sid in ids:
    d = tempfile.mkdtemp(prefix="recheck.", dir="/tmp")
    try:
        shutil.copytree("/repo/luna", os.path.join(d, "luna"))
        mp = os.path.join(ROOT, SD, sid, "meta.json")
        meta = json.load(open(mp))
        r = subprocess.run(f"patch -p1 -s < {os.path.join(ROOT, SD, sid, 'patch.diff')}", shell=True, cwd=d, capture_output=True, text=True)
        if r.returncode != 0:
            print(sid, "PATCH-FAILED"); continue
        r = subprocess.run([os.path.join(ROOT, "check"), meta["property"]], env={**os.environ, "HWV_REPO": d}, capture_output=True, text=True)
        vio = [l for l in r.stdout.splitlines() if l.startswith("VIOLATION")]
        caught = r.returncode == 1 and bool(vio)
        print(sid, "caught" if caught else f"MISSED exit={r.returncode}", len(vio), flush=True)
        if update:
            if "caught" in meta and not meta["caught"] and caught:
                meta.setdefault("first_run", {"caught": False, "check_exit": meta.get("check_exit")})
            meta.update({"caught": caught, "check_exit": r.returncode, "violation_lines": vio[:6],
                         "failed_obligations": [l.strip() for l in r.stdout.splitlines() if "failed obligation" in l][:12]})
            json.dump(meta, open(mp, "w"), indent=1)
    finally:
        shutil.rmtree(d, ignore_errors=True)
