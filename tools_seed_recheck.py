#!/usr/bin/env python3
"""Re-runs ./check on every kept seed (patched scratch copy of /repo/luna) and reports seeds that are no longer caught."""
import json, os, subprocess, sys, shutil, tempfile, glob
ROOT = os.path.dirname(os.path.abspath(__file__))
ids = sys.argv[1:] or sorted(os.path.basename(d) for d in glob.glob(os.path.join(ROOT, "seeded", "C*")))
for sid in ids:
    d = tempfile.mkdtemp(prefix="recheck.", dir="/tmp")
    try:
        shutil.copytree("/repo/luna", os.path.join(d, "luna"))
        meta = json.load(open(os.path.join(ROOT, "seeded", sid, "meta.json")))
        r = subprocess.run(f"patch -p1 -s < {os.path.join(ROOT, 'seeded', sid, 'patch.diff')}", shell=True, cwd=d, capture_output=True, text=True)
        if r.returncode != 0:
            print(sid, "PATCH-FAILED"); continue
        r = subprocess.run([os.path.join(ROOT, "check"), meta["property"]], env={**os.environ, "HWV_REPO": d}, capture_output=True, text=True)
        vio = [l for l in r.stdout.splitlines() if l.startswith("VIOLATION")]
        print(sid, "caught" if (r.returncode == 1 and vio) else f"MISSED exit={r.returncode}", len(vio), flush=True)
    finally:
        shutil.rmtree(d, ignore_errors=True)
